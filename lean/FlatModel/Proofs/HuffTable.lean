import FlatModel.Proofs.HuffDec
/-! `insert_decode` builds the table of a prefix-free family (C06, item 3). -/
namespace FC.Huff

/-! ### array facts -/

theorem get!_set! (m : Array Decode) (i j : Nat) (v : Decode) :
    (m.set! i v)[j]! = if i = j ∧ i < m.size then v else m[j]! := by
  by_cases h : i = j
  · subst h
    by_cases h2 : i < m.size
    · simp [Array.set!, h2]
    · simp [Array.set!, h2]
  · simp [Array.set!, Array.getElem!_eq_getD, Array.getD_eq_getD_getElem?, h]

theorem size_set! (m : Array Decode) (i : Nat) (v : Decode) : (m.set! i v).size = m.size := by
  simp [Array.set!]

theorem emptyMap_get (i : Nat) : emptyMap[i]! = .void := by
  simp [emptyMap, Array.getElem!_eq_getD, Array.getD_eq_getD_getElem?, Array.getElem?_replicate]
  split <;> rfl

theorem emptyMap_size : emptyMap.size = 256 := by simp [emptyMap]

/-- the `for off in 0..(1 << (8 - bits))` loop -/
def fill (m : Array Decode) (base K : Nat) (v : Decode) : Array Decode :=
  (List.range K).foldl (fun m off => m.set! (base + off) v) m

theorem fill_succ (m : Array Decode) (base K : Nat) (v : Decode) :
    fill m base (K + 1) v = (fill m base K v).set! (base + K) v := by
  simp [fill, List.range_succ, List.foldl_append]

theorem size_fill (m : Array Decode) (base K : Nat) (v : Decode) : (fill m base K v).size = m.size := by
  induction K with
  | zero => rfl
  | succ K ih => rw [fill_succ, size_set!, ih]

theorem get!_fill (m : Array Decode) (base K : Nat) (v : Decode) (j : Nat) :
    (fill m base K v)[j]! = if base ≤ j ∧ j < base + K ∧ j < m.size then v else m[j]! := by
  induction K with
  | zero => rw [if_neg (by omega)]; rfl
  | succ K ih =>
    rw [fill_succ, get!_set!, ih, size_fill]
    by_cases h1 : base + K = j ∧ base + K < m.size
    · rw [if_pos h1, if_pos (by omega)]
    · rw [if_neg h1]
      by_cases h2 : base ≤ j ∧ j < base + K ∧ j < m.size
      · rw [if_pos h2, if_pos (by omega)]
      · rw [if_neg h2, if_neg (by omega)]

/-! ### the 8-bit lookup key -/

def key8 (b : List Bool) : List Bool := (b ++ List.replicate 8 false).take 8

theorem idx8_eq (b : List Bool) : idx8 b = ofBits (key8 b) := rfl
@[simp] theorem length_key8 (b : List Bool) : (key8 b).length = 8 := by simp [key8]
theorem idx8_lt (b : List Bool) : idx8 b < 256 := by
  have := ofBits_lt (key8 b); rwa [length_key8] at this

theorem key8_of_ge {w : List Bool} (tail : List Bool) (h : 8 ≤ w.length) : key8 (w ++ tail) = w.take 8 := by
  rw [key8, List.append_assoc, List.take_append_of_le_length h]

theorem key8_of_ge' {w : List Bool} (h : 8 ≤ w.length) : key8 w = w.take 8 := by
  have := key8_of_ge (w := w) [] h; rwa [List.append_nil] at this

theorem take8_pad {w : List Bool} {k : Nat} (h : 8 ≤ w.length + k) :
    (w ++ List.replicate k false).take 8 = key8 w := by
  rw [key8, List.take_append, List.take_append, List.take_replicate, List.take_replicate]
  congr 2; omega

theorem key8_short {w : List Bool} (h : w.length ≤ 8) : key8 w = w ++ List.replicate (8 - w.length) false := by
  rw [key8, List.take_append, List.take_of_length_le h, List.take_replicate]; congr 2; omega

theorem idx8_short {w : List Bool} (h : w.length ≤ 8) : idx8 w = ofBits w * 2 ^ (8 - w.length) := by
  rw [idx8_eq, key8_short h, ofBits_append_zeros]

theorem prefix_key8 {w : List Bool} (tail : List Bool) (h : w.length ≤ 8) : w <+: key8 (w ++ tail) := by
  rw [key8, List.prefix_take_iff]
  exact ⟨by rw [List.append_assoc]; exact List.prefix_append _ _, h⟩

theorem prefix_of_prefix_key8 {w b : List Bool} (h : w <+: key8 b) : w <+: b ++ List.replicate 8 false :=
  List.IsPrefix.trans h (List.take_prefix _ _)

/-- a table index lies in the block written for the short code word `w` iff `w` is a prefix of the key -/
theorem range_iff_prefix (w Z : List Bool) (hw : w.length ≤ 8) (hZ : Z.length = 8) :
    (ofBits w * 2 ^ (8 - w.length) ≤ ofBits Z ∧ ofBits Z < ofBits w * 2 ^ (8 - w.length) + 2 ^ (8 - w.length)) ↔
      w <+: Z := by
  constructor
  · rintro ⟨h1, h2⟩
    have hdiv : ofBits Z / 2 ^ (8 - w.length) = ofBits w :=
      Nat.div_eq_of_lt_le h1 (by rw [Nat.add_mul, Nat.one_mul]; exact h2)
    rw [ofBits_div, hZ, show 8 - (8 - w.length) = w.length by omega] at hdiv
    have := ofBits_inj (by simp; omega) hdiv
    rw [List.prefix_iff_eq_take, this]
  · rintro ⟨Y, rfl⟩
    simp only [List.length_append] at hZ
    rw [ofBits_append, show 8 - w.length = Y.length by omega]
    have := ofBits_lt Y
    omega

/-! ### `insert_decode` on code words -/

/-- a code word left-aligned in a `u64` -/
def pad64 (w : List Bool) : List Bool := w ++ List.replicate (64 - w.length) false

/-- `insert_decode` with the code given as a bit string -/
def ins (n : Nat) (m : Array Decode) (s : Nat) (w : List Bool) : Array Decode :=
  insertDecode n m s w.length (ofBits (pad64 w))

theorem length_pad64 {w : List Bool} (h : w.length ≤ 64) : (pad64 w).length = 64 := by
  simp [pad64]; omega

theorem byte_pad64 {w : List Bool} (h : w.length ≤ 64) : ofBits (pad64 w) / 2 ^ 56 % 256 = idx8 w := by
  rw [ofBits_div, length_pad64 h, show 64 - 56 = 8 by rfl, pad64, take8_pad (by omega), ← idx8_eq,
    Nat.mod_eq_of_lt (idx8_lt w)]

theorem shift_pad64 {w : List Bool} (h8 : 8 ≤ w.length) (h : w.length ≤ 64) :
    ofBits (pad64 w) * 256 % 2 ^ 64 = ofBits (pad64 (w.drop 8)) := by
  rw [show (256 : Nat) = 2 ^ 8 by rfl, ← ofBits_append_zeros, ofBits_mod]
  congr 1
  simp only [List.length_append, length_pad64 h, List.length_replicate]
  rw [show 64 + 8 - 64 = 8 by rfl, pad64, pad64, List.append_assoc, List.drop_append_of_le_length h8,
    List.replicate_append_replicate, List.length_drop]
  congr 2; omega

/-- `code << (64 - level)` is the left-aligned code word -/
theorem la_eq {l code : Nat} (hl : l ≤ 64) (hc : code < 2 ^ l) :
    code * 2 ^ (64 - l) % 2 ^ 64 = ofBits (pad64 (bitsOfCode l code)) := by
  have hlt : code * 2 ^ (64 - l) < 2 ^ 64 := by
    have : code * 2 ^ (64 - l) < 2 ^ l * 2 ^ (64 - l) := Nat.mul_lt_mul_of_pos_right hc (Nat.two_pow_pos _)
    rwa [← Nat.pow_add, show l + (64 - l) = 64 by omega] at this
  rw [Nat.mod_eq_of_lt hlt, pad64, ofBits_append_zeros, ofBits_bitsOfCode_of_lt hc, length_bitsOfCode]

theorem ins_zero (m : Array Decode) (s : Nat) (w : List Bool) : ins 0 m s w = m := rfl

theorem ins_short {n : Nat} {m : Array Decode} {s : Nat} {w : List Bool} (h : w.length ≤ 8) :
    ins (n + 1) m s w = fill m (idx8 w) (2 ^ (8 - w.length)) (.symbol s w.length) := by
  rw [ins, insertDecode]
  simp only [h, ↓reduceIte, byte_pad64 (show w.length ≤ 64 by omega)]
  rfl

theorem ins_long {n : Nat} {m : Array Decode} {s : Nat} {w : List Bool} (h8 : 8 < w.length) (h : w.length ≤ 64) :
    ins (n + 1) m s w = m.set! (idx8 w) (.further (ins n
      (match m[idx8 w]! with | .further t => t | _ => emptyMap) s (w.drop 8))) := by
  rw [ins, insertDecode]
  simp only [show ¬ w.length ≤ 8 by omega, ↓reduceIte, byte_pad64 h, shift_pad64 (by omega) h, ins, List.length_drop]
  rfl

/-! ### well-formed nested tables -/

/-- every table reachable within depth `n` has 256 entries -/
def WFTab : Nat → Array Decode → Prop
  | 0, _ => True
  | n + 1, m => m.size = 256 ∧ ∀ (i : Nat) (t : Array Decode), m[i]! = Decode.further t → WFTab n t

theorem wfTab_empty (n : Nat) : WFTab n emptyMap := by
  cases n with
  | zero => trivial
  | succ n => exact ⟨emptyMap_size, fun i t h => (by rw [emptyMap_get] at h; cases h)⟩

theorem wfTab_next {n : Nat} {m : Array Decode} (h : WFTab (n + 1) m) (i : Nat) :
    WFTab n (match m[i]! with | .further t => t | _ => emptyMap) := by
  split
  · rename_i t ht; exact h.2 i t ht
  · exact wfTab_empty n

theorem wfTab_ins {n : Nat} {m : Array Decode} (s : Nat) {w : List Bool} (hw : w.length ≤ 64) (h : WFTab n m) :
    WFTab n (ins n m s w) := by
  induction n generalizing m w with
  | zero => trivial
  | succ n ih =>
    by_cases h8 : w.length ≤ 8
    · rw [ins_short h8]
      refine ⟨by rw [size_fill]; exact h.1, fun i t ht => ?_⟩
      rw [get!_fill] at ht
      split at ht
      · cases ht
      · exact h.2 i t ht
    · rw [ins_long (by omega) hw]
      refine ⟨by rw [size_set!]; exact h.1, fun i t ht => ?_⟩
      rw [get!_set!] at ht
      split at ht
      · simp only [Decode.further.injEq] at ht
        subst ht
        exact ih (by simp; omega) (wfTab_next h _)
      · exact h.2 i t ht

/-! ### coverage -/

/-- table `m` decodes the code word `w` (followed by anything) to `(s, |w|)` -/
def Covers (n : Nat) (m : Array Decode) (w : List Bool) (s : Nat) : Prop :=
  ∀ tail, walk n m (w ++ tail) = some (s, w.length)

theorem walk_congr {n : Nat} {m m' : Array Decode} {b : List Bool} (h : m'[idx8 b]! = m[idx8 b]!) :
    walk (n + 1) m' b = walk (n + 1) m b := by
  simp only [walk, h]

/-- a freshly inserted code word is decoded -/
theorem ins_self {n : Nat} {m : Array Decode} (s : Nat) {w : List Bool} (hm : WFTab n m)
    (h1 : 1 ≤ w.length) (hn : w.length ≤ 8 * n) (h64 : w.length ≤ 64) : Covers n (ins n m s w) w s := by
  induction n generalizing m w with
  | zero => omega
  | succ n ih =>
    intro tail
    by_cases h8 : w.length ≤ 8
    · rw [ins_short h8, walk, get!_fill]
      have hr := (range_iff_prefix w (key8 (w ++ tail)) h8 (length_key8 _)).2 (prefix_key8 tail h8)
      rw [← idx8_eq, ← idx8_short h8] at hr
      rw [if_pos ⟨hr.1, hr.2, (by rw [hm.1]; exact idx8_lt _)⟩]
      simp only
      rw [if_pos ⟨h1, h8⟩]
    · have hk : idx8 (w ++ tail) = idx8 w := by
        rw [idx8_eq, idx8_eq, key8_of_ge tail (by omega), key8_of_ge' (by omega)]
      rw [ins_long (by omega) h64, walk, hk, get!_set!, if_pos ⟨rfl, (by rw [hm.1]; exact idx8_lt _)⟩]
      simp only
      rw [List.drop_append_of_le_length (by omega),
        ih (wfTab_next hm _) (by simp; omega) (by simp; omega) (by simp; omega) tail]
      simp; omega

/-- inserting `w` does not disturb a code word `w'` that is prefix-incomparable with `w` -/
theorem ins_other {n : Nat} {m : Array Decode} (s s' : Nat) {w w' : List Bool} (hm : WFTab n m)
    (h1 : 1 ≤ w.length) (h64 : w.length ≤ 64) (hc : Covers n m w' s')
    (hp1 : ¬ w <+: w') (hp2 : ¬ w' <+: w) : Covers n (ins n m s w) w' s' := by
  induction n generalizing m w w' with
  | zero => exact hc
  | succ n ih =>
    by_cases h8 : w.length ≤ 8
    · -- a block of `symbol` entries is written; the key of `w'` is outside the block
      intro tail
      rw [← hc tail, ins_short h8]
      apply walk_congr
      rw [get!_fill, if_neg]
      rintro ⟨ha, hb, -⟩
      rw [idx8_short h8, idx8_eq] at ha hb
      have hpre := (range_iff_prefix w (key8 (w' ++ tail)) h8 (length_key8 _)).1 ⟨ha, hb⟩
      have h1 := prefix_of_prefix_key8 hpre
      have h2 : w' <+: w' ++ tail ++ List.replicate 8 false := by
        rw [List.append_assoc]; exact List.prefix_append _ _
      rcases List.prefix_or_prefix_of_prefix h1 h2 with h | h
      · exact hp1 h
      · exact hp2 h
    · rw [ins_long (by omega) h64]
      by_cases h8' : w'.length ≤ 8
      · -- `w'` is short: its key differs from the first byte of `w`
        intro tail
        rw [← hc tail]
        apply walk_congr
        rw [get!_set!, if_neg]
        rintro ⟨hidx, -⟩
        rw [idx8_eq, idx8_eq] at hidx
        have hk := ofBits_inj (by simp) hidx
        rw [key8_of_ge' (by omega)] at hk
        have : w' <+: w := by
          have := prefix_key8 tail h8'
          rw [← hk] at this
          exact List.IsPrefix.trans this (List.take_prefix _ _)
        exact hp2 this
      · -- both long
        have hk' : ∀ tail, idx8 (w' ++ tail) = idx8 w' := fun tail => by
          rw [idx8_eq, idx8_eq, key8_of_ge tail (by omega), key8_of_ge' (by omega)]
        by_cases hidx : idx8 w = idx8 w'
        · -- same first byte: recurse into the nested table
          have hk : w.take 8 = w'.take 8 := by
            rw [idx8_eq, idx8_eq, key8_of_ge' (by omega), key8_of_ge' (by omega)] at hidx
            exact ofBits_inj (by simp; omega) hidx
          have hsplit : w = w.take 8 ++ w.drop 8 := (List.take_append_drop 8 w).symm
          have hsplit' : w' = w.take 8 ++ w'.drop 8 := by rw [hk]; exact (List.take_append_drop 8 w').symm
          -- the old entry must be `further t` with `t` covering the rest of `w'`
          have h0 := hc []
          rw [List.append_nil, walk, ← hidx] at h0
          cases hmi : m[idx8 w]! with
          | void => simp [hmi] at h0
          | symbol s0 l0 =>
            simp only [hmi] at h0
            split at h0
            · simp only [Option.some.injEq, Prod.mk.injEq] at h0; omega
            · cases h0
          | further t =>
            have hct : Covers n t (w'.drop 8) s' := by
              intro tail
              have := hc tail
              rw [walk, hk' tail, ← hidx, hmi] at this
              simp only at this
              rw [List.drop_append_of_le_length (by omega)] at this
              cases hw : walk n t (List.drop 8 w' ++ tail) with
              | none => simp [hw] at this
              | some q =>
                obtain ⟨a, b⟩ := q
                simp only [hw, Option.map_some, Option.some.injEq, Prod.mk.injEq] at this
                simp only [List.length_drop, Option.some.injEq, Prod.mk.injEq]
                omega
            have hrec := ih (m := t) (w := w.drop 8) (w' := w'.drop 8) (hm.2 _ t hmi) (by simp; omega) (by simp; omega) hct
              (by intro h; apply hp1; rw [hsplit, hsplit']; exact (List.prefix_append_right_inj _).2 h)
              (by intro h; apply hp2; rw [hsplit, hsplit']; exact (List.prefix_append_right_inj _).2 h)
            intro tail
            rw [walk, hk' tail, ← hidx, get!_set!, if_pos ⟨rfl, (by rw [hm.1]; exact idx8_lt _)⟩]
            simp only
            rw [List.drop_append_of_le_length (by omega), hrec tail]
            simp; omega
        · intro tail
          rw [← hc tail]
          apply walk_congr
          rw [hk' tail, get!_set!, if_neg (fun h => hidx h.1)]

/-- prefix-incomparable code words -/
def Incomp (a b : List Bool) : Prop := ¬ a <+: b ∧ ¬ b <+: a

/-- item 3: folding `insert_decode` over a prefix-free family of code words (1..64 bits) yields a table
that decodes every member; later insertions do not disturb earlier ones -/
theorem fold_covers (fam : List (Nat × List Bool))
    (hpf : fam.Pairwise fun a b => Incomp a.2 b.2) (hlen : ∀ x ∈ fam, 1 ≤ x.2.length ∧ x.2.length ≤ 64)
    (m : Array Decode) (hm : WFTab 9 m) :
    WFTab 9 (fam.foldl (fun m x => ins 9 m x.1 x.2) m) ∧
    (∀ x ∈ fam, Covers 9 (fam.foldl (fun m x => ins 9 m x.1 x.2) m) x.2 x.1) ∧
    (∀ w s, Covers 9 m w s → (∀ x ∈ fam, Incomp x.2 w) → Covers 9 (fam.foldl (fun m x => ins 9 m x.1 x.2) m) w s) := by
  induction fam generalizing m with
  | nil => exact ⟨hm, fun x hx => (by cases hx), fun w s h _ => h⟩
  | cons x rest ih =>
    rw [List.pairwise_cons] at hpf
    obtain ⟨hx1, hx64⟩ := hlen x (List.mem_cons_self)
    have hm1 : WFTab 9 (ins 9 m x.1 x.2) := wfTab_ins x.1 hx64 hm
    obtain ⟨ih1, ih2, ih3⟩ := ih hpf.2 (fun y hy => hlen y (List.mem_cons_of_mem _ hy)) _ hm1
    simp only [List.foldl_cons]
    refine ⟨ih1, ?_, ?_⟩
    · intro y hy
      rcases List.mem_cons.1 hy with rfl | hy
      · apply ih3 _ _ (ins_self _ hm hx1 (by omega) hx64)
        intro z hz
        have := hpf.1 z hz
        exact ⟨this.2, this.1⟩
      · exact ih2 y hy
    · intro w s hc hinc
      apply ih3 w s
      · have := hinc x List.mem_cons_self
        exact ins_other _ _ hm hx1 hx64 hc this.1 this.2
      · intro z hz; exact hinc z (List.mem_cons_of_mem _ hz)

/-- item 3, packaged for `Code`: if `c.decode` was produced by folding `insert_decode` (as in `create_from`)
over a family `fam ⊇ c.encode` of left-aligned codes with `1 ≤ l ≤ 64`, `code < 2^l`, pairwise prefix-free,
then `TableOK c` -/
theorem tableOK_of_fold (c : Code) (fam : List (Nat × Nat × Nat))
    (hdec : c.decode = fam.foldl (fun m x => insertDecode 9 m x.1 x.2.1 (x.2.2 * 2 ^ (64 - x.2.1) % 2 ^ 64)) emptyMap)
    (hsub : ∀ e ∈ c.encode, e ∈ fam)
    (hb : ∀ x ∈ fam, 1 ≤ x.2.1 ∧ x.2.1 ≤ 64 ∧ x.2.2 < 2 ^ x.2.1)
    (hpf : fam.Pairwise fun a b => Incomp (bitsOfCode a.2.1 a.2.2) (bitsOfCode b.2.1 b.2.2)) : TableOK c := by
  let fam' : List (Nat × List Bool) := fam.map fun x => (x.1, bitsOfCode x.2.1 x.2.2)
  have hfold : ∀ (l : List (Nat × Nat × Nat)) (m : Array Decode), (∀ x ∈ l, x.2.1 ≤ 64 ∧ x.2.2 < 2 ^ x.2.1) →
      l.foldl (fun m x => insertDecode 9 m x.1 x.2.1 (x.2.2 * 2 ^ (64 - x.2.1) % 2 ^ 64)) m =
      (l.map fun x => (x.1, bitsOfCode x.2.1 x.2.2)).foldl (fun m x => ins 9 m x.1 x.2) m := by
    intro l
    induction l with
    | nil => intro m _; rfl
    | cons x r ih =>
      intro m h
      obtain ⟨h1, h2⟩ := h x List.mem_cons_self
      simp only [List.foldl_cons, List.map_cons]
      rw [ih _ (fun y hy => h y (List.mem_cons_of_mem _ hy)), ins, la_eq h1 h2, length_bitsOfCode]
  rw [hfold fam emptyMap (fun x hx => (hb x hx).2)] at hdec
  obtain ⟨-, hcov, -⟩ := fold_covers fam' (by
      simp only [fam', List.pairwise_map]; exact hpf)
    (by
      intro x hx
      simp only [fam', List.mem_map] at hx
      obtain ⟨y, hy, rfl⟩ := hx
      simp only [length_bitsOfCode]
      exact ⟨(hb y hy).1, (hb y hy).2.1⟩) emptyMap (wfTab_empty 9)
  intro s l code hl tail
  simp only [Code.lookup, Option.map_eq_some_iff] at hl
  obtain ⟨e, he, hel⟩ := hl
  have hmem := hsub e (List.mem_of_find?_eq_some he)
  have hs : e.1 = s := by simpa using List.find?_some he
  obtain ⟨s0, l0, c0⟩ := e
  simp only at hs hel
  simp only [Prod.mk.injEq] at hel
  obtain ⟨rfl, rfl⟩ := hel
  subst hs
  have := hcov (s0, bitsOfCode l0 c0) (by simp only [fam', List.mem_map]; exact ⟨_, hmem, rfl⟩) tail
  rw [hdec]
  simpa using this

/-- a code given only by its `encode` list, with the decode table built as in `create_from` -/
def Code.ofEncode (enc : List (Nat × Nat × Nat)) : Code :=
  ⟨enc, enc.foldl (fun m x => insertDecode 9 m x.1 x.2.1 (x.2.2 * 2 ^ (64 - x.2.1) % 2 ^ 64)) emptyMap⟩

theorem tableOK_ofEncode (enc : List (Nat × Nat × Nat))
    (hb : ∀ x ∈ enc, 1 ≤ x.2.1 ∧ x.2.1 ≤ 64 ∧ x.2.2 < 2 ^ x.2.1)
    (hpf : enc.Pairwise fun a b => Incomp (bitsOfCode a.2.1 a.2.2) (bitsOfCode b.2.1 b.2.2)) :
    TableOK (Code.ofEncode enc) :=
  tableOK_of_fold _ enc rfl (fun _ h => h) hb hpf

theorem encOK_of_forall (c : Code) (h : ∀ x ∈ c.encode, x.2.1 ≤ 57 ∧ x.2.2 < 2 ^ x.2.1) : EncOK c := by
  intro s l code hl
  simp only [Code.lookup, Option.map_eq_some_iff] at hl
  obtain ⟨e, he, hel⟩ := hl
  have := h e (List.mem_of_find?_eq_some he)
  rw [hel] at this
  exact this

instance (a b : List Bool) : Decidable (Incomp a b) := by unfold Incomp; infer_instance

/-- the tail of `create_from`, from the sorted `(level, symbol)` list on -/
def finishCode (levels : List (Nat × Nat)) : Code :=
  let levels := match levels with | [(_, s)] => [(1, s)] | l => l
  let enc := assign levels 0 0
  let dec := enc.foldl (fun m (s, bits, code) => insertDecode 9 m s bits (code * 2 ^ (64 - bits) % 2 ^ 64)) emptyMap
  let dec := match levels with | [(_, s)] => insertDecode 9 dec s 1 (2 ^ 63) | _ => dec
  ⟨enc, dec⟩

theorem createFrom_eq (counts : List (Nat × Int)) :
    createFrom counts = if counts.isEmpty then ⟨[], emptyMap⟩ else
      finishCode (sortByLevel (levelsOf (buildTree counts.length (counts.map fun (s, c) => (-c, Node.leaf s)) #[])
        (2 * counts.length + 2) [((buildTree counts.length (counts.map fun (s, c) => (-c, Node.leaf s)) #[]).size - 1, 0)] [])) := rfl

theorem finishCode_decode (L : List (Nat × Nat)) :
    ∃ fam, (∀ e ∈ (finishCode L).encode, e ∈ fam) ∧
      (finishCode L).decode =
        fam.foldl (fun m x => insertDecode 9 m x.1 x.2.1 (x.2.2 * 2 ^ (64 - x.2.1) % 2 ^ 64)) emptyMap ∧
      (fam = (finishCode L).encode ∨
        ∃ s, (finishCode L).encode = [(s, 1, 0)] ∧ fam = [(s, 1, 0), (s, 1, 1)]) := by
  match L with
  | [] =>
    refine ⟨(finishCode []).encode, fun e he => he, ?_, Or.inl rfl⟩
    unfold finishCode; dsimp only
  | [(a, s)] =>
    have henc : (finishCode [(a, s)]).encode = [(s, 1, 0)] := rfl
    refine ⟨[(s, 1, 0), (s, 1, 1)], ?_, ?_, Or.inr ⟨s, henc, rfl⟩⟩
    · intro e he
      rw [henc] at he
      exact List.mem_cons.2 (Or.inl (List.mem_singleton.1 he))
    · unfold finishCode
      dsimp only
      have h1 : assign [(1, s)] 0 0 = [(s, 1, 0)] := rfl
      rw [h1, List.foldl_cons, List.foldl_nil, List.foldl_cons, List.foldl_cons, List.foldl_nil]
      dsimp only
  | x :: y :: r =>
    refine ⟨(finishCode (x :: y :: r)).encode, fun e he => he, ?_, Or.inl rfl⟩
    unfold finishCode; dsimp only

/-- shape of the decode table of `create_from`: a fold of `insert_decode` over the encode list, plus (repair D4)
the complementary one-bit pattern when there is a single symbol -/
theorem createFrom_decode (counts : List (Nat × Int)) :
    ∃ fam, (∀ e ∈ (createFrom counts).encode, e ∈ fam) ∧
      (createFrom counts).decode =
        fam.foldl (fun m x => insertDecode 9 m x.1 x.2.1 (x.2.2 * 2 ^ (64 - x.2.1) % 2 ^ 64)) emptyMap ∧
      (fam = (createFrom counts).encode ∨
        ∃ s, (createFrom counts).encode = [(s, 1, 0)] ∧ fam = [(s, 1, 0), (s, 1, 1)]) := by
  rw [createFrom_eq]
  split
  · exact ⟨[], fun e he => he, rfl, Or.inl rfl⟩
  · exact finishCode_decode _

/-- what remains to be shown about `create_from` (canonical code assignment) for `TableOK`:
lengths in 1..64, codes fit their length, code words pairwise prefix-free -/
theorem createFrom_tableOK (counts : List (Nat × Int))
    (hb : ∀ x ∈ (createFrom counts).encode, 1 ≤ x.2.1 ∧ x.2.1 ≤ 64 ∧ x.2.2 < 2 ^ x.2.1)
    (hpf : (createFrom counts).encode.Pairwise fun a b => Incomp (bitsOfCode a.2.1 a.2.2) (bitsOfCode b.2.1 b.2.2)) :
    TableOK (createFrom counts) := by
  obtain ⟨fam, hsub, hdec, hfam | ⟨s, -, hfam⟩⟩ := createFrom_decode counts
  · subst hfam
    exact tableOK_of_fold _ _ hdec hsub hb hpf
  · subst hfam
    refine tableOK_of_fold _ _ hdec hsub ?_ ?_
    · intro x hx
      simp only [List.mem_cons, List.not_mem_nil, or_false] at hx
      rcases hx with rfl | rfl <;> simp
    · simp only [List.pairwise_cons, List.mem_cons, List.not_mem_nil, or_false, forall_eq, false_imp_iff,
        implies_true, List.Pairwise.nil, and_true]
      decide

/-! ### soundness: nothing is decoded that was not inserted ("uncovered entries stay void") -/

/-- every successful walk is justified by a code word in `P` that is a prefix of the (zero-padded) input -/
def Sound (n : Nat) (m : Array Decode) (P : Nat → List Bool → Prop) : Prop :=
  ∀ b s l, walk n m b = some (s, l) → ∃ w, P s w ∧ w.length = l ∧ ∃ k, w <+: b ++ List.replicate k false

theorem walk_empty (n : Nat) (b : List Bool) : walk n emptyMap b = none := by
  cases n with
  | zero => rfl
  | succ n => simp only [walk, emptyMap_get]

theorem Sound.mono {n : Nat} {m : Array Decode} {P Q : Nat → List Bool → Prop} (h : Sound n m P)
    (hpq : ∀ s w, P s w → Q s w) : Sound n m Q := by
  intro b s l hw
  obtain ⟨w, hp, hl, hk⟩ := h b s l hw
  exact ⟨w, hpq s w hp, hl, hk⟩

theorem key8_append_drop (b : List Bool) (k : Nat) :
    ∃ k', key8 b ++ (b.drop 8 ++ List.replicate k false) = b ++ List.replicate k' false := by
  by_cases h : 8 ≤ b.length
  · exact ⟨k, by rw [key8_of_ge' h, ← List.append_assoc, List.take_append_drop]⟩
  · refine ⟨8 - b.length + k, ?_⟩
    rw [key8_short (by omega), List.drop_of_length_le (by omega), List.nil_append, List.append_assoc,
      List.replicate_append_replicate]

theorem sound_ins {n : Nat} {m : Array Decode} {P : Nat → List Bool → Prop} (s : Nat) {w : List Bool}
    (hs : Sound n m P) (h1 : 1 ≤ w.length) (h64 : w.length ≤ 64) :
    Sound n (ins n m s w) (fun s' w' => P s' w' ∨ (s' = s ∧ w' = w)) := by
  induction n generalizing m w P with
  | zero => intro b s1 l hw; simp [walk] at hw
  | succ n ih =>
    have hold : ∀ b s1 l, walk (n + 1) m b = some (s1, l) →
        ∃ w', (P s1 w' ∨ (s1 = s ∧ w' = w)) ∧ w'.length = l ∧ ∃ k, w' <+: b ++ List.replicate k false := by
      intro b s1 l hw
      obtain ⟨w', hp, hl, hk⟩ := hs b s1 l hw
      exact ⟨w', Or.inl hp, hl, hk⟩
    intro b s1 l hw
    by_cases h8 : w.length ≤ 8
    · rw [ins_short h8] at hw
      by_cases hin : idx8 w ≤ idx8 b ∧ idx8 b < idx8 w + 2 ^ (8 - w.length) ∧ idx8 b < m.size
      · rw [walk, get!_fill, if_pos hin] at hw
        simp only at hw
        rw [if_pos ⟨h1, h8⟩] at hw
        simp only [Option.some.injEq, Prod.mk.injEq] at hw
        obtain ⟨rfl, rfl⟩ := hw
        refine ⟨w, Or.inr ⟨rfl, rfl⟩, rfl, 8, ?_⟩
        rw [idx8_short h8, idx8_eq] at hin
        exact prefix_of_prefix_key8 ((range_iff_prefix w (key8 b) h8 (length_key8 _)).1 ⟨hin.1, hin.2.1⟩)
      · apply hold
        rw [← hw]; symm
        apply walk_congr
        rw [get!_fill, if_neg hin]
    · rw [ins_long (by omega) h64] at hw
      by_cases hin : idx8 w = idx8 b ∧ idx8 w < m.size
      · rw [walk, get!_set!, ← hin.1, if_pos ⟨rfl, hin.2⟩] at hw
        simp only at hw
        -- the nested table is sound for the code words that start with the first byte of `w`
        have hnext : Sound n (match m[idx8 w]! with | .further t => t | _ => emptyMap) (fun s' w' => P s' (w.take 8 ++ w')) := by
          split
          · rename_i t hmt
            intro b' s2 l2 hw2
            have hidx : idx8 (w.take 8 ++ b') = idx8 w := by
              rw [idx8_eq, idx8_eq, key8_of_ge b' (by simp; omega), key8_of_ge' (by omega), List.take_take]
              simp
            have hw3 : walk (n + 1) m (w.take 8 ++ b') = some (s2, l2 + 8) := by
              rw [walk, hidx, hmt]
              simp only
              rw [List.drop_left' (by simp; omega), hw2]; rfl
            obtain ⟨w2, hp2, hl2, k, hk2⟩ := hs _ _ _ hw3
            have hw2split : w2 = w.take 8 ++ w2.drop 8 := by
              have h1 : w2.take 8 <+: w.take 8 ++ (b' ++ List.replicate k false) := by
                rw [← List.append_assoc]; exact List.IsPrefix.trans (List.take_prefix _ _) hk2
              have h2 : w.take 8 <+: w.take 8 ++ (b' ++ List.replicate k false) := List.prefix_append _ _
              have h3 := List.prefix_of_prefix_length_le h1 h2 (by simp; omega)
              have h4 : w2.take 8 = w.take 8 := by
                obtain ⟨r, hr⟩ := h3
                have := congrArg List.length hr
                simp at this
                have : r = [] := by
                  apply List.eq_nil_of_length_eq_zero; omega
                subst this; simpa using hr
              rw [← h4, List.take_append_drop]
            refine ⟨w2.drop 8, (by show P s2 (w.take 8 ++ w2.drop 8); rw [← hw2split]; exact hp2), (by simp; omega), k, ?_⟩
            rw [hw2split, List.append_assoc, List.prefix_append_right_inj] at hk2
            exact hk2
          · intro b' s2 l2 hw2; rw [walk_empty] at hw2; cases hw2
        have hrec := ih (w := w.drop 8) hnext (by simp; omega) (by simp; omega)
        cases hw' : walk n (ins n (match m[idx8 w]! with | .further t => t | _ => emptyMap) s (w.drop 8)) (b.drop 8) with
        | none => simp [hw'] at hw
        | some q =>
          obtain ⟨s2, l2⟩ := q
          simp only [hw', Option.map_some, Option.some.injEq, Prod.mk.injEq] at hw
          obtain ⟨rfl, rfl⟩ := hw
          obtain ⟨w3, hp3, hl3, k, hk3⟩ := hrec _ _ _ hw'
          have hkey : key8 b = w.take 8 := by
            have := hin.1
            rw [idx8_eq, idx8_eq, key8_of_ge' (by omega)] at this
            exact (ofBits_inj (by simp; omega) this).symm
          obtain ⟨k', hk'⟩ := key8_append_drop b k
          refine ⟨w.take 8 ++ w3, ?_, by simp; omega, k', ?_⟩
          · rcases hp3 with hp3 | ⟨rfl, rfl⟩
            · exact Or.inl hp3
            · exact Or.inr ⟨rfl, List.take_append_drop 8 w⟩
          · rw [← hk', hkey, List.prefix_append_right_inj]; exact hk3
      · apply hold
        rw [← hw]; symm
        apply walk_congr
        rw [get!_set!, if_neg hin]

theorem sound_fold (fam : List (Nat × List Bool)) (hlen : ∀ x ∈ fam, 1 ≤ x.2.length ∧ x.2.length ≤ 64)
    (m : Array Decode) (P : Nat → List Bool → Prop) (hm : Sound 9 m P) :
    Sound 9 (fam.foldl (fun m x => ins 9 m x.1 x.2) m) (fun s w => P s w ∨ (s, w) ∈ fam) := by
  induction fam generalizing m P with
  | nil => exact hm.mono fun s w h => Or.inl h
  | cons x rest ih =>
    obtain ⟨h1, h64⟩ := hlen x List.mem_cons_self
    have := ih (fun y hy => hlen y (List.mem_cons_of_mem _ hy)) _ _ (sound_ins x.1 hm h1 h64)
    simp only [List.foldl_cons]
    apply this.mono
    intro s w h
    rcases h with (h | ⟨rfl, rfl⟩) | h
    · exact Or.inl h
    · exact Or.inr List.mem_cons_self
    · exact Or.inr (List.mem_cons_of_mem _ h)

/-- item 3, soundness: a table built by `insert_decode` from `fam` decodes nothing but members of `fam`:
whenever the walk yields `(s, l)`, some `(s, l, code) ∈ fam` has its code word as a prefix of the (zero-padded) input.
Contrapositive: inputs not starting with a code word hit a `void` entry. -/
theorem walk_sound (c : Code) (fam : List (Nat × Nat × Nat))
    (hdec : c.decode = fam.foldl (fun m x => insertDecode 9 m x.1 x.2.1 (x.2.2 * 2 ^ (64 - x.2.1) % 2 ^ 64)) emptyMap)
    (hb : ∀ x ∈ fam, 1 ≤ x.2.1 ∧ x.2.1 ≤ 64 ∧ x.2.2 < 2 ^ x.2.1)
    (b : List Bool) (s l : Nat) (hw : walk 9 c.decode b = some (s, l)) :
    ∃ code, (s, l, code) ∈ fam ∧ ∃ k, bitsOfCode l code <+: b ++ List.replicate k false := by
  have hfold : ∀ (l : List (Nat × Nat × Nat)) (m : Array Decode), (∀ x ∈ l, x.2.1 ≤ 64 ∧ x.2.2 < 2 ^ x.2.1) →
      l.foldl (fun m x => insertDecode 9 m x.1 x.2.1 (x.2.2 * 2 ^ (64 - x.2.1) % 2 ^ 64)) m =
      (l.map fun x => (x.1, bitsOfCode x.2.1 x.2.2)).foldl (fun m x => ins 9 m x.1 x.2) m := by
    intro l
    induction l with
    | nil => intro m _; rfl
    | cons x r ih =>
      intro m h
      obtain ⟨h1, h2⟩ := h x List.mem_cons_self
      simp only [List.foldl_cons, List.map_cons]
      rw [ih _ (fun y hy => h y (List.mem_cons_of_mem _ hy)), ins, la_eq h1 h2, length_bitsOfCode]
  rw [hfold fam emptyMap (fun x hx => (hb x hx).2)] at hdec
  have hs := sound_fold (fam.map fun x => (x.1, bitsOfCode x.2.1 x.2.2)) (by
      intro x hx
      simp only [List.mem_map] at hx
      obtain ⟨y, hy, rfl⟩ := hx
      simp only [length_bitsOfCode]
      exact ⟨(hb y hy).1, (hb y hy).2.1⟩) emptyMap (fun _ _ => False)
    (fun b s l h => by rw [walk_empty] at h; cases h)
  rw [← hdec] at hs
  obtain ⟨w, hp, hl, k, hk⟩ := hs b s l hw
  rcases hp with hp | hp
  · exact hp.elim
  · simp only [List.mem_map, Prod.mk.injEq] at hp
    obtain ⟨⟨s0, l0, c0⟩, hmem, rfl, rfl⟩ := hp
    simp only [length_bitsOfCode] at hl
    subst hl
    exact ⟨c0, hmem, k, hk⟩

/-- root-level form: an entry whose byte neither extends a code word nor is extended by one is not written -/
theorem ins_void {n : Nat} {m : Array Decode} (s : Nat) {w : List Bool} {i : Nat} (hi : i < 256)
    (h64 : w.length ≤ 64) (hv : m[i]! = .void)
    (hnp : ¬ w <+: bitsOfCode 8 i) (hnq : ¬ bitsOfCode 8 i <+: w) : (ins (n + 1) m s w)[i]! = .void := by
  have hZ : ofBits (bitsOfCode 8 i) = i := ofBits_bitsOfCode_of_lt hi
  by_cases h8 : w.length ≤ 8
  · rw [ins_short h8, get!_fill, if_neg, hv]
    rintro ⟨ha, hb, -⟩
    rw [idx8_short h8, ← hZ] at ha hb
    exact hnp ((range_iff_prefix w _ h8 (length_bitsOfCode _ _)).1 ⟨ha, hb⟩)
  · rw [ins_long (by omega) h64, get!_set!, if_neg, hv]
    rintro ⟨ha, -⟩
    rw [idx8_eq, ← hZ, key8_of_ge' (by omega)] at ha
    have := ofBits_inj (by simp; omega) ha
    exact hnq (by rw [← this]; exact List.take_prefix _ _)

/-- item 3: entries of the root table not covered by any code word stay `void` -/
theorem root_void (fam : List (Nat × List Bool)) (hlen : ∀ x ∈ fam, x.2.length ≤ 64) (i : Nat) (hi : i < 256)
    (hun : ∀ x ∈ fam, ¬ x.2 <+: bitsOfCode 8 i ∧ ¬ bitsOfCode 8 i <+: x.2)
    (m : Array Decode) (hv : m[i]! = .void) :
    (fam.foldl (fun m x => ins 9 m x.1 x.2) m)[i]! = .void := by
  induction fam generalizing m with
  | nil => exact hv
  | cons x rest ih =>
    simp only [List.foldl_cons]
    apply ih (fun y hy => hlen y (List.mem_cons_of_mem _ hy)) (fun y hy => hun y (List.mem_cons_of_mem _ hy))
    have := hun x List.mem_cons_self
    exact ins_void x.1 hi (hlen x List.mem_cons_self) hv this.1 this.2

/-! ### depth of the walk -/

/-- `walk` that also reports the leaf width and the number of `further` steps -/
def walkD : Nat → Array Decode → List Bool → Option (Nat × Nat × Nat)
  | 0, _, _ => none
  | n + 1, m, b =>
    match m[idx8 b]! with
    | .void => none
    | .symbol s l => if 1 ≤ l ∧ l ≤ 8 then some (s, l, 0) else none
    | .further t => (walkD n t (b.drop 8)).map fun q => (q.1, q.2.1, q.2.2 + 1)

theorem walk_eq_walkD (n : Nat) (m : Array Decode) (b : List Bool) :
    walk n m b = (walkD n m b).map fun q => (q.1, q.2.1 + 8 * q.2.2) := by
  induction n generalizing m b with
  | zero => rfl
  | succ n ih =>
    cases hm : m[idx8 b]! with
    | void => simp only [walk, walkD, hm, Option.map_none]
    | symbol s l =>
      simp only [walk, walkD, hm]
      split <;> simp
    | further t =>
      simp only [walk, walkD, hm, ih]
      cases walkD n t (b.drop 8) with
      | none => rfl
      | some q => simp only [Option.map_some, Option.some.injEq, Prod.mk.injEq, true_and]; omega

theorem walkD_leaf {n : Nat} {m : Array Decode} {b : List Bool} {s l d : Nat} (h : walkD n m b = some (s, l, d)) :
    1 ≤ l ∧ l ≤ 8 := by
  induction n generalizing m b d with
  | zero => simp [walkD] at h
  | succ n ih =>
    simp only [walkD] at h
    split at h
    · cases h
    · split at h
      · simp only [Option.some.injEq, Prod.mk.injEq] at h; omega
      · cases h
    · rename_i t ht
      cases hw : walkD n t (b.drop 8) with
      | none => simp [hw] at h
      | some q =>
        obtain ⟨s', l', d'⟩ := q
        simp only [hw, Option.map_some, Option.some.injEq, Prod.mk.injEq] at h
        obtain ⟨rfl, rfl, -⟩ := h
        exact ih hw

/-- item 3: a code word of length `L` is reached after exactly `⌊(L−1)/8⌋` `further` steps, at a leaf
`symbol s (L − 8·⌊(L−1)/8⌋)` -/
theorem walk_depth {n : Nat} {m : Array Decode} {b : List Bool} {s L : Nat} (h : walk n m b = some (s, L)) :
    walkD n m b = some (s, L - 8 * ((L - 1) / 8), (L - 1) / 8) := by
  rw [walk_eq_walkD] at h
  cases hw : walkD n m b with
  | none => simp [hw] at h
  | some q =>
    obtain ⟨s', l, d⟩ := q
    simp only [hw, Option.map_some, Option.some.injEq, Prod.mk.injEq] at h
    obtain ⟨rfl, rfl⟩ := h
    have := walkD_leaf hw
    simp only [Option.some.injEq, Prod.mk.injEq, true_and]
    omega

end FC.Huff
