import FlatModel.Model.Wrappers
import FlatModel.Proofs.Region
import FlatModel.Proofs.Index
/-! Laws of `ConsecutiveIndexPairs` (C01/C02/C08 core, C12). -/
namespace FC
open Region

/-- what "the pairs are dense" (deduplicate.rs:114) means -/
class LawfulDense (R : Type) {V : outParam Type} [Region R V (Nat × Nat)] [DenseRegion R] : Prop where
  cursor_default : DenseRegion.cursor (default : R) = 0
  cursor_clear : ∀ r : R, DenseRegion.cursor (clear r) = 0
  push_dense : ∀ (r r' : R) (v : V) (i : Nat × Nat), Inv r → push r v = some (r', i) →
      i = (DenseRegion.cursor r, DenseRegion.cursor r')

instance (T : Type) : LawfulDense (OwnedRegion T) where
  cursor_default := rfl
  cursor_clear _ := rfl
  push_dense r r' v i _ hp := by
    simp only [Region.push, Option.some.injEq, Prod.mk.injEq] at hp
    obtain ⟨rfl, rfl⟩ := hp
    simp [DenseRegion.cursor, MVec.len]

section
variable {R V O : Type} [Region R V (Nat × Nat)] [DenseRegion R] [IdxCont O Nat]
  [LawfulRegion R] [LawfulDense R] [LawfulIdxCont O]

/-- a successful push: the inner region was pushed, one end offset was appended, the index is the
position of the new item (C12) -/
theorem consec_push_some (r r' : ConsecPairs R O) (v : V) (k : Nat) (hi : Inv r)
    (hp : push r v = some (r', k)) :
    push r.inner v = some (r'.inner, (DenseRegion.cursor r.inner, DenseRegion.cursor r'.inner)) ∧
    IdxCont.iter r'.indices = IdxCont.iter r.indices ++ [DenseRegion.cursor r'.inner] ∧
    IdxCont.Inv r'.indices ∧
    r'.last = DenseRegion.cursor r'.inner ∧ k = (IdxCont.iter r.indices).length - 1 := by
  obtain ⟨hin, hc, _, _, _⟩ := hi
  simp only [Region.push] at hp
  cases hpi : push r.inner v with
  | none => simp [hpi] at hp
  | some p =>
    obtain ⟨in', a, b⟩ := p
    have hd := LawfulDense.push_dense r.inner in' v (a, b) hin hpi
    simp only [Prod.mk.injEq] at hd
    obtain ⟨rfl, rfl⟩ := hd
    simp only [hpi] at hp
    split at hp
    · simp only [Option.some.injEq, Prod.mk.injEq] at hp
      obtain ⟨rfl, rfl⟩ := hp
      refine ⟨rfl, LawfulIdxCont.iter_push _ _ hc, LawfulIdxCont.inv_push _ _ hc, rfl, ?_⟩
      simp only [LawfulIdxCont.iter_push _ _ hc, List.length_append, List.length_singleton]
      omega
    · cases hp

/-- after a push, a valid index is an old valid index or the one just returned -/
theorem consec_valid_cases (r r' : ConsecPairs R O) (v : V) (k k' : Nat) (hi : Inv r)
    (hp : push r v = some (r', k)) (hv : Valid r' k') : Valid r k' ∨ k' = k := by
  obtain ⟨_, hit, _, _, hk⟩ := consec_push_some r r' v k hi hp
  simp only [Region.Valid, hit, List.length_append, List.length_singleton] at hv ⊢
  omega

instance : LawfulRegion (ConsecPairs R O) where
  inv_default := by
    refine ⟨LawfulRegion.inv_default (R := R), LawfulIdxCont.inv_push _ _ LawfulIdxCont.inv_default, ?_, ?_, ?_⟩
    · simp [Region.default, LawfulDense.cursor_default]
    · simp [Region.default, LawfulIdxCont.iter_push _ _ (LawfulIdxCont.inv_default (C := O)),
        LawfulIdxCont.iter_default]
    · intro k a b _ hb
      simp only [Region.default, LawfulIdxCont.iter_push _ _ (LawfulIdxCont.inv_default (C := O)),
        LawfulIdxCont.iter_default, List.nil_append] at hb
      simp at hb
  push_ok r v hi ha := by
    obtain ⟨hin, hc, hl, hlast, hall⟩ := hi
    obtain ⟨in', i, hp, v', hr, hs⟩ := LawfulRegion.push_ok r.inner v hin ha
    have hd := LawfulDense.push_dense r.inner in' v i hin hp
    subst hd
    have hoffs := LawfulIdxCont.iter_push r.indices (DenseRegion.cursor in') hc
    generalize hO : IdxCont.iter r.indices = offs at hlast hall hoffs
    have hne : offs ≠ [] := by intro h; subst h; simp at hlast
    have hlen : 0 < offs.length := List.length_pos_iff.mpr hne
    refine ⟨⟨in', IdxCont.push r.indices (DenseRegion.cursor in'), DenseRegion.cursor in'⟩,
      offs.length - 1, ?_, v', ?_, hs⟩
    · simp only [Region.push, hp, hl, if_true, hoffs, List.length_append, List.length_singleton]
      congr 2
    · simp only [Region.index, hoffs]
      have h1 : (offs ++ [DenseRegion.cursor in'])[offs.length - 1]? = some r.last := by
        rw [List.getElem?_append_left (by omega), ← List.getLast?_eq_getElem?]; exact hlast
      have h2 : (offs ++ [DenseRegion.cursor in'])[offs.length - 1 + 1]? = some (DenseRegion.cursor in') := by
        rw [show offs.length - 1 + 1 = offs.length by omega]; simp
      simp only [h1, h2, hl]
      exact hr
  push_refuses r v hi hna := by
    simp only [Region.push, LawfulRegion.push_refuses r.inner v hi.1 hna]
  push_inv r r' v k hi hp := by
    obtain ⟨hpi, hit, hc', hl', hk⟩ := consec_push_some r r' v k hi hp
    obtain ⟨hin, hc, hl, hlast, hall⟩ := hi
    obtain ⟨hi', hv'⟩ := LawfulRegion.push_inv r.inner r'.inner v _ hin hpi
    generalize hO : IdxCont.iter r.indices = offs at hlast hall hit hk
    have hne : offs ≠ [] := by intro h; subst h; simp at hlast
    have hlen : 0 < offs.length := List.length_pos_iff.mpr hne
    refine ⟨⟨hi', hc', hl', by rw [hit, hl']; simp, ?_⟩, ?_⟩
    · intro j a b hja hjb
      rw [hit] at hja hjb
      by_cases hj : j + 1 < offs.length
      · rw [List.getElem?_append_left (by omega)] at hja
        rw [List.getElem?_append_left hj] at hjb
        exact (LawfulRegion.frame r.inner r'.inner v _ (a, b) hin (hall j a b hja hjb) hpi).1
      · have hj1 : j + 1 = offs.length := by
          rcases Nat.lt_or_ge (j + 1) (offs.length + 1) with h | h
          · omega
          · rw [List.getElem?_eq_none (by simp; omega)] at hjb; cases hjb
        rw [List.getElem?_append_left (by omega)] at hja
        rw [List.getElem?_append_right (by omega)] at hjb
        have h0 : j + 1 - offs.length = 0 := by omega
        simp only [h0, List.getElem?_cons_zero, Option.some.injEq] at hjb
        have hj' : j = offs.length - 1 := by omega
        rw [List.getLast?_eq_getElem?] at hlast
        rw [hj', hlast] at hja
        simp only [Option.some.injEq] at hja
        subst hja hjb
        rw [hl]; exact hv'
    · simp only [Region.Valid, hit, hk, List.length_append, List.length_singleton]; omega
  frame r r' v k j hi hv hp := by
    obtain ⟨hpi, hit, _, _, _⟩ := consec_push_some r r' v k hi hp
    obtain ⟨hin, hc, hl, hlast, hall⟩ := hi
    simp only [Region.Valid] at hv
    refine ⟨by simp only [Region.Valid, hit, List.length_append]; omega, ?_⟩
    simp only [Region.index, hit]
    rw [List.getElem?_append_left (by omega), List.getElem?_append_left hv]
    have h1 : (IdxCont.iter r.indices)[j]? = some (IdxCont.iter r.indices)[j] := List.getElem?_eq_getElem (by omega)
    have h2 : (IdxCont.iter r.indices)[j+1]? = some (IdxCont.iter r.indices)[j+1] := List.getElem?_eq_getElem hv
    simp only [h1, h2]
    exact (LawfulRegion.frame r.inner r'.inner v _ _ hin (hall j _ _ h1 h2) hpi).2
  valid_reads r j hi hv := by
    obtain ⟨hin, hc, hl, hlast, hall⟩ := hi
    simp only [Region.Valid] at hv
    have h1 : (IdxCont.iter r.indices)[j]? = some (IdxCont.iter r.indices)[j] := List.getElem?_eq_getElem (by omega)
    have h2 : (IdxCont.iter r.indices)[j+1]? = some (IdxCont.iter r.indices)[j+1] := List.getElem?_eq_getElem hv
    simp only [Region.index, h1, h2]
    exact LawfulRegion.valid_reads r.inner _ hin (hall j _ _ h1 h2)
  clear_inv r hi := by
    have hit : IdxCont.iter (IdxCont.push (IdxCont.clear r.indices) 0) = [0] := by
      rw [LawfulIdxCont.iter_push _ _ (LawfulIdxCont.inv_clear _), LawfulIdxCont.iter_clear]; rfl
    refine ⟨LawfulRegion.clear_inv r.inner hi.1, LawfulIdxCont.inv_push _ _ (LawfulIdxCont.inv_clear _), ?_, ?_, ?_⟩
    · simp [Region.clear, LawfulDense.cursor_clear]
    · simp [Region.clear, hit]
    · intro k a b _ hb
      simp only [Region.clear, hit] at hb
      simp at hb
  clear_sim r hi := by
    refine ⟨LawfulRegion.clear_sim r.inner hi.1, ?_, rfl⟩
    simp only [Region.clear, Region.default]
    rw [LawfulIdxCont.iter_push _ _ (LawfulIdxCont.inv_clear _), LawfulIdxCont.iter_clear,
      LawfulIdxCont.iter_push _ _ LawfulIdxCont.inv_default, LawfulIdxCont.iter_default]
  sim_refl r hi := ⟨LawfulRegion.sim_refl r.inner hi.1, rfl, rfl⟩
  sim_push a b v hs ha hb := by
    obtain ⟨hsin, hit, hl⟩ := hs
    rcases LawfulRegion.sim_push a.inner b.inner v hsin ha.1 hb.1 with ⟨h1, h2⟩ | ⟨a', b', i, h1, h2, h3⟩
    · exact Or.inl ⟨by simp [Region.push, h1], by simp [Region.push, h2]⟩
    · have hda := LawfulDense.push_dense a.inner a' v i ha.1 h1
      have hla : i.1 = a.last := by rw [hda, ha.2.2.1]
      have hlb : i.1 = b.last := by rw [← hl]; exact hla
      obtain ⟨i1, i2⟩ := i
      simp only at hla hlb
      have hita := LawfulIdxCont.iter_push a.indices i2 ha.2.1
      have hitb := LawfulIdxCont.iter_push b.indices i2 hb.2.1
      refine Or.inr ⟨⟨a', IdxCont.push a.indices i2, i2⟩, ⟨b', IdxCont.push b.indices i2, i2⟩,
        (IdxCont.iter (IdxCont.push a.indices i2)).length - 2, ?_, ?_, h3, ?_, rfl⟩
      · simp [Region.push, h1, hla]
      · simp [Region.push, h2, hlb, hita, hitb, hit]
      · rw [hita, hitb, hit]
  sim_index a b i hs ha hb := by
    obtain ⟨hsin, hit, hl⟩ := hs
    refine ⟨by simp only [Region.Valid, hit], fun hv => ?_⟩
    simp only [Region.Valid] at hv
    have h1 : (IdxCont.iter a.indices)[i]? = some (IdxCont.iter a.indices)[i] := List.getElem?_eq_getElem (by omega)
    have h2 : (IdxCont.iter a.indices)[i+1]? = some (IdxCont.iter a.indices)[i+1] := List.getElem?_eq_getElem hv
    simp only [Region.index, ← hit, h1, h2]
    exact (LawfulRegion.sim_index a.inner b.inner _ hsin ha.1 hb.1).2 (ha.2.2.2.2 i _ _ h1 h2)

end
end FC
