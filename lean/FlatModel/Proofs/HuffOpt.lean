import Mathlib.Tactic.Linarith
import Mathlib.Tactic.Ring
import Mathlib.Data.List.Perm.Basic
/-! Huffman optimality over Kraft-feasible depth assignments (no trees), and Kraft for prefix-free bit strings. -/
namespace FC.Huff.Opt

/-- an assignment: list of (weight, depth) -/
abbrev Asg := List (Nat × Nat)

def cost (E : Asg) : Nat := (E.map fun e => e.1 * e.2).sum
/-- Kraft sum scaled by 2^M -/
def kraft (M : Nat) (E : Asg) : Nat := (E.map fun e => 2 ^ (M - e.2)).sum
def Feasible (M : Nat) (E : Asg) : Prop := (∀ e ∈ E, e.2 ≤ M) ∧ kraft M E ≤ 2 ^ M

theorem cost_perm {E F : Asg} (h : E.Perm F) : cost E = cost F := by
  unfold cost; exact (h.map _).sum_nat
theorem kraft_perm {M} {E F : Asg} (h : E.Perm F) : kraft M E = kraft M F := by
  unfold kraft; exact (h.map _).sum_nat
theorem feasible_perm {M} {E F : Asg} (h : E.Perm F) (hf : Feasible M E) : Feasible M F := by
  refine ⟨fun e he => hf.1 e (h.mem_iff.mpr he), ?_⟩
  rw [← kraft_perm h]; exact hf.2

@[simp] theorem cost_cons (e : Nat × Nat) (E : Asg) : cost (e :: E) = e.1 * e.2 + cost E := by
  simp [cost]
@[simp] theorem kraft_cons (M) (e : Nat × Nat) (E : Asg) : kraft M (e :: E) = 2 ^ (M - e.2) + kraft M E := by
  simp [kraft]

/-- swapping depths of a lighter-and-shallower entry with a heavier-and-deeper one does not increase cost -/
theorem swap_cost (a w d m : Nat) (haw : a ≤ w) (hdm : d ≤ m) : a * m + w * d ≤ a * d + w * m := by
  nlinarith [Nat.mul_le_mul haw hdm, Nat.mul_le_mul_left a hdm, Nat.mul_le_mul_right d haw]

/-- merge identity -/
theorem merge_cost (a b d : Nat) (hd : 1 ≤ d) : (a + b) * (d - 1) + a + b = a * d + b * d := by
  obtain ⟨k, rfl⟩ : ∃ k, d = k + 1 := ⟨d - 1, by omega⟩
  simp; ring

theorem merge_kraft (M d : Nat) (hd : 1 ≤ d) (hM : d ≤ M) : 2 ^ (M - (d - 1)) = 2 ^ (M - d) + 2 ^ (M - d) := by
  have : M - (d - 1) = (M - d) + 1 := by omega
  rw [this, pow_succ]; ring

/-- every term of the Kraft sum of entries no deeper than `d` is a multiple of 2^(M-d) -/
theorem kraft_dvd (M d : Nat) (E : Asg) (h : ∀ e ∈ E, e.2 ≤ d) (hd : d ≤ M) : 2 ^ (M - d) ∣ kraft M E := by
  induction E with
  | nil => simp [kraft]
  | cons e E ih =>
    rw [kraft_cons]
    apply Nat.dvd_add
    · apply Nat.pow_dvd_pow; have := h e (by simp); omega
    · exact ih (fun e' he' => h e' (by simp [he']))

/-- shortening: if the deepest entry (depth d1) is strictly deeper than all others (≤ d2 < d1), it can be lifted to d2 -/
theorem lift_deepest (M d1 d2 : Nat) (E : Asg) (h : ∀ e ∈ E, e.2 ≤ d2) (h12 : d2 < d1) (h1M : d1 ≤ M)
    (hk : 2 ^ (M - d1) + kraft M E ≤ 2 ^ M) : 2 ^ (M - d2) + kraft M E ≤ 2 ^ M := by
  have hdvd := kraft_dvd M d2 E h (by omega)
  obtain ⟨x, hx⟩ := hdvd
  have hM : 2 ^ M = 2 ^ (M - d2) * 2 ^ d2 := by rw [← pow_add]; congr 1; omega
  have hpos : 0 < 2 ^ (M - d1) := Nat.two_pow_pos _
  have hg : 0 < 2 ^ (M - d2) := Nat.two_pow_pos _
  rw [hx, hM] at hk ⊢
  have : x < 2 ^ d2 := by
    by_contra hc
    simp only [Nat.not_lt] at hc
    have := Nat.mul_le_mul_left (2 ^ (M - d2)) hc
    omega
  calc 2 ^ (M - d2) + 2 ^ (M - d2) * x = 2 ^ (M - d2) * (x + 1) := by ring
    _ ≤ 2 ^ (M - d2) * 2 ^ d2 := Nat.mul_le_mul_left _ this


/-- bubble the maximal depth onto a lightest entry: weights stay in place, Kraft sum is unchanged, cost does not grow -/
theorem pull_max (M a : Nat) : ∀ (R : Asg) (d : Nat), (∀ e ∈ R, a ≤ e.1) →
    ∃ (d' : Nat) (R' : Asg), R'.map Prod.fst = R.map Prod.fst ∧
      2 ^ (M - d') + kraft M R' = 2 ^ (M - d) + kraft M R ∧
      (∀ e ∈ R', e.2 ≤ d') ∧ d ≤ d' ∧
      a * d' + cost R' ≤ a * d + cost R ∧
      (∀ B, d ≤ B → (∀ e ∈ R, e.2 ≤ B) → d' ≤ B ∧ ∀ e ∈ R', e.2 ≤ B) := by
  intro R
  induction R with
  | nil => intro d _; exact ⟨d, [], rfl, rfl, by simp, le_refl _, le_refl _, fun B hB _ => ⟨hB, by simp⟩⟩
  | cons e R0 ih =>
    intro d ha
    obtain ⟨w, x⟩ := e
    have haw : a ≤ w := ha (w, x) (by simp)
    obtain ⟨d0, R0', hw, hk, hmax, hd0, hc, hB⟩ := ih d (fun e he => ha e (by simp [he]))
    by_cases hx : x ≤ d0
    · refine ⟨d0, (w, x) :: R0', by simp [hw], ?_, ?_, hd0, ?_, ?_⟩
      · simp only [kraft_cons]; omega
      · intro e he; simp at he; rcases he with rfl | he; exact hx; exact hmax e he
      · simp only [cost_cons]; omega
      · intro B hdB hRB
        obtain ⟨h1, h2⟩ := hB B hdB (fun e he => hRB e (by simp [he]))
        refine ⟨h1, ?_⟩
        intro e he; simp at he; rcases he with rfl | he
        · exact hRB (w, x) (by simp)
        · exact h2 e he
    · have hx' : d0 ≤ x := by omega
      refine ⟨x, (w, d0) :: R0', by simp [hw], ?_, ?_, by omega, ?_, ?_⟩
      · simp only [kraft_cons]; omega
      · intro e he; simp at he; rcases he with rfl | he; exact hx'; exact le_trans (hmax e he) hx'
      · simp only [cost_cons]
        have := swap_cost a w d0 x haw hx'
        omega
      · intro B hdB hRB
        obtain ⟨h1, h2⟩ := hB B hdB (fun e he => hRB e (by simp [he]))
        refine ⟨hRB (w, x) (by simp), ?_⟩
        intro e he; simp at he; rcases he with rfl | he
        · exact h1
        · exact h2 e he

/-- greedy Huffman runs on weight lists, any tie-breaking; `c` is the total cost -/
inductive HuffRel : List Nat → Nat → Prop
  | single (w : Nat) : HuffRel [w] 0
  | step {ws rest : List Nat} {a b c : Nat} : ws.Perm (a :: b :: rest) → (∀ x ∈ rest, a ≤ x ∧ b ≤ x) → a ≤ b →
      HuffRel ((a + b) :: rest) c → HuffRel ws (c + a + b)

theorem perm_map_cons {α β} [DecidableEq α] (f : α → β) (E : List α) (x : β) (l : List β)
    (h : (E.map f).Perm (x :: l)) : ∃ e E', E.Perm (e :: E') ∧ f e = x ∧ (E'.map f).Perm l := by
  have hx : x ∈ E.map f := h.mem_iff.mpr (by simp)
  obtain ⟨e, he, rfl⟩ := List.mem_map.mp hx
  refine ⟨e, E.erase e, List.perm_cons_erase he, rfl, ?_⟩
  have h2 : (E.map f).Perm (f e :: (E.erase e).map f) := (List.perm_cons_erase he).map f
  exact (List.Perm.cons_inv (h2.symm.trans h))

theorem optimal {ws : List Nat} {c : Nat} (h : HuffRel ws c) :
    ∀ (M : Nat) (E : Asg), (E.map Prod.fst).Perm ws → Feasible M E → c ≤ cost E := by
  induction h with
  | single w => intro M E _ _; exact Nat.zero_le _
  | @step ws rest a b c hperm hmin hab _ ih =>
    intro M E hE hF
    -- extract the entries carrying a and b
    obtain ⟨p, E1, hp, hpa, hE1⟩ := perm_map_cons Prod.fst E a (b :: rest) (hE.trans hperm)
    obtain ⟨q, R, hq, hqb, hR⟩ := perm_map_cons Prod.fst E1 b rest hE1
    obtain ⟨pa, dp⟩ := p; obtain ⟨qb, dq⟩ := q
    simp only at hpa hqb; subst hpa; subst hqb
    have hEperm : E.Perm ((pa, dp) :: (qb, dq) :: R) := hp.trans (List.Perm.cons _ hq)
    have hF0 := feasible_perm hEperm hF
    have hcost0 := cost_perm hEperm
    have hRmin : ∀ e ∈ R, pa ≤ e.1 ∧ qb ≤ e.1 := by
      intro e he
      have : e.1 ∈ rest := hR.mem_iff.mp (List.mem_map_of_mem he)
      exact hmin _ this
    -- first bubble: a gets the maximal depth
    obtain ⟨d1, R1, hw1, hk1, hmax1, _, hc1, hB1⟩ := pull_max M pa ((qb, dq) :: R) dp
      (by intro e he; simp at he; rcases he with rfl | he; exact hab; exact (hRmin e he).1)
    obtain ⟨q1, R1', rfl⟩ : ∃ q1 R1', R1 = q1 :: R1' := by
      cases R1 with
      | nil => simp at hw1
      | cons q1 R1' => exact ⟨q1, R1', rfl⟩
    obtain ⟨qb1, dq1⟩ := q1
    simp only [List.map_cons, List.cons.injEq] at hw1
    obtain ⟨hq1, hw1'⟩ := hw1
    subst hq1
    have hR1min : ∀ e ∈ R1', qb1 ≤ e.1 := by
      intro e he
      have : e.1 ∈ R1'.map Prod.fst := List.mem_map_of_mem he
      rw [hw1'] at this
      obtain ⟨e0, he0, h0⟩ := List.mem_map.mp this
      rw [← h0]; exact (hRmin e0 he0).2
    -- second bubble: b gets the maximal depth of the rest
    obtain ⟨d2, R2, hw2, hk2, hmax2, _, hc2, hB2⟩ := pull_max M qb1 R1' dq1 hR1min
    have hdq1 : dq1 ≤ d1 := hmax1 (qb1, dq1) (by simp)
    obtain ⟨hd21, _⟩ := hB2 d1 hdq1 (fun e he => hmax1 e (by simp [he]))
    obtain ⟨hd1M, hR1M⟩ := hB1 M (hF0.1 (pa, dp) (by simp)) (fun e he => hF0.1 e (by simp at he ⊢; right; exact he))
    obtain ⟨hd2M, hR2M⟩ := hB2 M (hR1M (qb1, dq1) (by simp)) (fun e he => hR1M e (by simp [he]))
    have hK : 2 ^ (M - d1) + 2 ^ (M - d2) + kraft M R2 ≤ 2 ^ M := by
      have := hF0.2
      simp only [kraft_cons] at this hk1
      omega
    have hC : pa * d1 + qb1 * d2 + cost R2 ≤ cost E := by
      rw [hcost0]
      simp only [cost_cons] at hc1 ⊢
      omega
    -- lift a to depth d2 if it is strictly deeper
    have hK2 : 2 ^ (M - d2) + 2 ^ (M - d2) + kraft M R2 ≤ 2 ^ M := by
      rcases Nat.lt_or_ge d2 d1 with hlt | hge
      · have := lift_deepest M d1 d2 ((qb1, d2) :: R2)
          (by intro e he; simp at he; rcases he with rfl | he; exact le_refl _; exact hmax2 e he) hlt hd1M
          (by simp only [kraft_cons]; omega)
        simp only [kraft_cons] at this; omega
      · have : d1 = d2 := by omega
        subst this; exact hK
    have hd2pos : 1 ≤ d2 := by
      by_contra hc0
      have h0 : d2 = 0 := by omega
      subst h0
      have : 0 < 2 ^ M := Nat.two_pow_pos _
      simp at hK2; omega
    have hF' : Feasible M ((pa + qb1, d2 - 1) :: R2) := by
      refine ⟨?_, ?_⟩
      · intro e he; simp at he; rcases he with rfl | he
        · simp; omega
        · exact hR2M e he
      · simp only [kraft_cons]
        rw [merge_kraft M d2 hd2pos hd2M]; omega
    have hW' : (((pa + qb1, d2 - 1) :: R2).map Prod.fst).Perm ((pa + qb1) :: rest) := by
      simp only [List.map_cons]
      rw [hw2, hw1']
      exact List.Perm.cons _ hR
    have hIH := ih M _ hW' hF'
    simp only [cost_cons] at hIH
    have hm := merge_cost pa qb1 d2 hd2pos
    have hle : pa * d2 ≤ pa * d1 := Nat.mul_le_mul_left _ hd21
    omega


/-! ### Kraft's inequality for prefix-free lists of bit strings -/

/-- prefix-free, pairwise by position (so a repeated string is excluded as well) -/
def PrefixFree (L : List (List Bool)) : Prop := L.Pairwise fun a b => ¬ a <+: b ∧ ¬ b <+: a

instance (L : List (List Bool)) : Decidable (PrefixFree L) := by unfold PrefixFree; infer_instance

/-- Kraft sum of a list of bit strings, scaled by 2^M -/
def ksum (M : Nat) (L : List (List Bool)) : Nat := (L.map fun b => 2 ^ (M - b.length)).sum

/-- the tails of the strings that start with bit `c` -/
def tailsOf (c : Bool) (L : List (List Bool)) : List (List Bool) :=
  L.filterMap fun x => match x with | [] => none | d :: t => if d = c then some t else none

theorem prefixFree_tailsOf (c : Bool) {L} (h : PrefixFree L) : PrefixFree (tailsOf c L) := by
  unfold PrefixFree tailsOf
  refine List.Pairwise.filterMap _ ?_ h
  intro a a' hR b ha b' ha'
  cases a with
  | nil => simp at ha
  | cons d t =>
    cases a' with
    | nil => simp at ha'
    | cons d' t' =>
      simp only [Option.ite_none_right_eq_some, Option.some.injEq] at ha ha'
      obtain ⟨rfl, rfl⟩ := ha; obtain ⟨rfl, rfl⟩ := ha'
      simpa [List.cons_prefix_cons] using hR

theorem mem_tailsOf {c : Bool} {L} {t : List Bool} : t ∈ tailsOf c L ↔ (c :: t) ∈ L := by
  unfold tailsOf
  rw [List.mem_filterMap]
  constructor
  · rintro ⟨a, ha, h⟩
    cases a with
    | nil => simp at h
    | cons d t' =>
      simp only [Option.ite_none_right_eq_some, Option.some.injEq] at h
      obtain ⟨rfl, rfl⟩ := h; exact ha
  · intro h; exact ⟨c :: t, h, by simp⟩

theorem ksum_split (M : Nat) (L : List (List Bool)) (h : ∀ x ∈ L, x ≠ []) :
    ksum (M + 1) L = ksum M (tailsOf false L) + ksum M (tailsOf true L) := by
  induction L with
  | nil => simp [ksum, tailsOf]
  | cons x L ih =>
    have ih' := ih (fun y hy => h y (by simp [hy]))
    cases x with
    | nil => exact absurd rfl (h [] (by simp))
    | cons d t =>
      unfold ksum tailsOf at *
      cases d <;> simp [ih'] <;> omega

theorem prefixFree_nil_mem {L : List (List Bool)} (h : PrefixFree L) (hn : [] ∈ L) : L = [[]] := by
  cases L with
  | nil => simp at hn
  | cons a L' =>
    unfold PrefixFree at h
    rw [List.pairwise_cons] at h
    cases a with
    | nil =>
      cases L' with
      | nil => rfl
      | cons b _ => exact absurd (List.nil_prefix) (h.1 b (by simp)).1
    | cons d t =>
      simp only [List.mem_cons, reduceCtorEq, false_or] at hn
      exact absurd (List.nil_prefix) (h.1 [] hn).2

/-- **Kraft's inequality**: a prefix-free list of bit strings of length at most `M` has scaled Kraft sum at most `2^M`. -/
theorem prefix_free_kraft : ∀ (M : Nat) (L : List (List Bool)), PrefixFree L → (∀ b ∈ L, b.length ≤ M) →
    (L.map fun b => 2 ^ (M - b.length)).sum ≤ 2 ^ M := by
  intro M
  induction M with
  | zero =>
    intro L hpf hlen
    by_cases hn : [] ∈ L
    · rw [prefixFree_nil_mem hpf hn]; simp
    · cases L with
      | nil => simp
      | cons a L' =>
        have := hlen a (by simp)
        have : a = [] := List.eq_nil_of_length_eq_zero (by omega)
        subst this; exact absurd (by simp) hn
  | succ M ih =>
    intro L hpf hlen
    by_cases hn : [] ∈ L
    · rw [prefixFree_nil_mem hpf hn]; simp
    · have hne : ∀ x ∈ L, x ≠ [] := fun x hx hx0 => hn (hx0 ▸ hx)
      have hs := ksum_split M L hne
      unfold ksum at hs
      rw [hs]
      have h0 := ih (tailsOf false L) (prefixFree_tailsOf _ hpf)
        (fun b hb => by have := hlen _ (mem_tailsOf.mp hb); simp at this; omega)
      have h1 := ih (tailsOf true L) (prefixFree_tailsOf _ hpf)
        (fun b hb => by have := hlen _ (mem_tailsOf.mp hb); simp at this; omega)
      rw [pow_succ]; omega

/-- a prefix code on weighted items is a Kraft-feasible assignment -/
theorem feasible_of_prefixFree {ι} (l : List ι) (wt : ι → Nat) (g : ι → List Bool) (M : Nat)
    (hpf : PrefixFree (l.map g)) (hM : ∀ i ∈ l, (g i).length ≤ M) :
    Feasible M (l.map fun i => (wt i, (g i).length)) := by
  refine ⟨?_, ?_⟩
  · intro e he
    obtain ⟨p, hp, rfl⟩ := List.mem_map.mp he
    exact hM p hp
  · have := prefix_free_kraft M (l.map g) hpf
      (by intro b hb; obtain ⟨p, hp, rfl⟩ := List.mem_map.mp hb; exact hM p hp)
    unfold kraft
    simpa [List.map_map, Function.comp_def] using this

end FC.Huff.Opt
