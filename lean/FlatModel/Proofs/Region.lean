import FlatModel.Model.Region
/-! The laws every region satisfies, proved compositionally (C01, C02, C08 core). -/
namespace FC
open Region

class LawfulRegion (R : Type) {V I : outParam Type} [Region R V I] : Prop where
  inv_default : Inv (default : R)
  /-- C01: an accepted push succeeds and the returned index reads the pushed value -/
  push_ok : ∀ (r : R) (v : V), Inv r → Accepts r v →
      ∃ r' i, push r v = some (r', i) ∧ ∃ v', index r' i = some v' ∧ same (R := R) v' v
  push_refuses : ∀ (r : R) (v : V), Inv r → ¬ Accepts r v → push r v = none
  push_inv : ∀ (r r' : R) (v : V) (i : I), Inv r → push r v = some (r', i) → Inv r' ∧ Valid r' i
  /-- C02: a push leaves every valid index valid and reading the same -/
  frame : ∀ (r r' : R) (v : V) (i j : I), Inv r → Valid r j → push r v = some (r', i) →
      Valid r' j ∧ index r' j = index r j
  valid_reads : ∀ (r : R) (j : I), Inv r → Valid r j → ∃ u, index r j = some u
  clear_inv : ∀ r : R, Inv r → Inv (clear r)
  /-- C08 -/
  clear_sim : ∀ r : R, Inv r → Sim (clear r) default
  sim_refl : ∀ r : R, Inv r → Sim r r
  sim_push : ∀ (a b : R) (v : V), Sim a b → Inv a → Inv b →
      (push a v = none ∧ push b v = none) ∨
      ∃ a' b' i, push a v = some (a', i) ∧ push b v = some (b', i) ∧ Sim a' b'
  sim_index : ∀ (a b : R) (i : I), Sim a b → Inv a → Inv b →
      (Valid a i ↔ Valid b i) ∧ (Valid a i → index a i = index b i)

/-! ### MirrorRegion -/
instance (T : Type) : LawfulRegion (MirrorRegion T) where
  inv_default := trivial
  push_ok r v _ _ := ⟨r, v, rfl, v, rfl, rfl⟩
  push_refuses _ _ _ h := absurd trivial h
  push_inv _ _ _ _ _ _ := ⟨trivial, trivial⟩
  frame _ _ _ _ _ _ _ _ := ⟨trivial, rfl⟩
  valid_reads _ j _ _ := ⟨j, rfl⟩
  clear_inv _ _ := trivial
  clear_sim _ _ := trivial
  sim_refl _ _ := trivial
  sim_push a b v _ _ _ := Or.inr ⟨a, b, v, rfl, rfl, trivial⟩
  sim_index _ _ _ _ _ _ := ⟨Iff.rfl, fun _ => rfl⟩

/-! ### OwnedRegion -/
theorem take_drop_append_left {T} (l v : List T) (a b : Nat) (h2 : b ≤ l.length) :
    ((l ++ v).drop a).take (b - a) = (l.drop a).take (b - a) := by
  rcases Nat.lt_or_ge b a with h | h
  · have : b - a = 0 := by omega
    simp [this]
  · rw [List.drop_append_of_le_length (by omega), List.take_append_of_le_length]
    simp; omega

instance (T : Type) : LawfulRegion (OwnedRegion T) where
  inv_default := trivial
  push_ok r v _ _ := by
    refine ⟨_, _, rfl, v, ?_, rfl⟩
    simp [Region.index, MVec.len]
  push_refuses _ _ _ h := absurd trivial h
  push_inv r r' v i _ hp := by
    simp only [Region.push, Option.some.injEq, Prod.mk.injEq] at hp
    obtain ⟨rfl, rfl⟩ := hp
    exact ⟨trivial, by simp [Region.Valid, MVec.len]⟩
  frame r r' v i j _ hv hp := by
    simp only [Region.push, Option.some.injEq, Prod.mk.injEq] at hp
    obtain ⟨rfl, rfl⟩ := hp
    simp only [Region.Valid, MVec.len] at hv
    simp only [Region.Valid, Region.index, MVec.len, MVec.extend_data, List.length_append]
    refine ⟨⟨hv.1, by omega⟩, ?_⟩
    have h1 : j.1 ≤ j.2 ∧ j.2 ≤ r.slices.data.length + v.length := ⟨hv.1, by omega⟩
    simp only [h1, hv, and_self, if_true]
    rw [take_drop_append_left _ _ _ _ hv.2]
  valid_reads r j _ hv := by
    simp only [Region.Valid] at hv
    exact ⟨(r.slices.data.drop j.1).take (j.2 - j.1), by simp only [Region.index, hv, and_self, if_true]⟩
  clear_inv _ _ := trivial
  clear_sim _ _ := rfl
  sim_refl _ _ := rfl
  sim_push a b v hs _ _ := by
    simp only [Region.Sim] at hs
    refine Or.inr ⟨⟨a.slices.extend v⟩, ⟨b.slices.extend v⟩, (a.slices.len, a.slices.len + v.length), rfl, ?_, ?_⟩
    · simp [Region.push, MVec.len, hs]
    · simp [Region.Sim, hs]
  sim_index a b i hs _ _ := by
    obtain ⟨⟨da, ca⟩⟩ := a; obtain ⟨⟨db, cb⟩⟩ := b
    simp only [Region.Sim] at hs
    subst hs
    exact ⟨Iff.rfl, fun _ => rfl⟩

/-! ### Vec<T> as a region -/
instance (T : Type) : LawfulRegion (VecRegion T) where
  inv_default := trivial
  push_ok r v _ _ := by
    refine ⟨_, _, rfl, v, ?_, rfl⟩
    simp [Region.index, MVec.len]
  push_refuses _ _ _ h := absurd trivial h
  push_inv r r' v i _ hp := by
    simp only [Region.push, Option.some.injEq, Prod.mk.injEq] at hp
    obtain ⟨rfl, rfl⟩ := hp
    exact ⟨trivial, by simp [Region.Valid, MVec.len]⟩
  frame r r' v i j _ hv hp := by
    simp only [Region.push, Option.some.injEq, Prod.mk.injEq] at hp
    obtain ⟨rfl, rfl⟩ := hp
    simp only [Region.Valid, MVec.len] at hv
    simp only [Region.Valid, Region.index, MVec.len, MVec.push_data, List.length_append, List.length_singleton]
    exact ⟨by omega, List.getElem?_append_left hv⟩
  valid_reads r j _ hv := by
    simp only [Region.Valid, MVec.len] at hv
    exact ⟨r.v.data[j], by simp [Region.index, hv]⟩
  clear_inv _ _ := trivial
  clear_sim _ _ := rfl
  sim_refl _ _ := rfl
  sim_push a b v hs _ _ := by
    simp only [Region.Sim] at hs
    refine Or.inr ⟨⟨a.v.push v⟩, ⟨b.v.push v⟩, a.v.len, rfl, ?_, ?_⟩
    · simp [Region.push, MVec.len, hs]
    · simp [Region.Sim, hs]
  sim_index a b i hs _ _ := by
    simp only [Region.Sim] at hs
    simp [Region.Valid, Region.index, MVec.len, hs]

end FC
