import FlatModel.Model.Items
import FlatModel.Proofs.Slice
import FlatModel.Proofs.Columns
import FlatModel.Proofs.Ops
/-! Helper lemmas about the read items `ReadSlice` / `ReadColumns` (C13, C14, C15):
element reads as a list of possibly-panicking thunks, the zip/extend/truncate argument of
`clone_onto`, and the comparison `Iterator::eq` / `Iterator::cmp` perform. Core-only proofs. -/
namespace FC
open Region

/-! ### Sequencing a list of possibly-failing reads -/

/-- all reads succeed, in order (`none` = one of them panicked) -/
def optAll {α : Type} : List (Option α) → Option (List α)
  | [] => some []
  | none :: _ => none
  | some a :: rest =>
    match optAll rest with
    | none => none
    | some as => some (a :: as)

theorem optAll_map_some {α : Type} (vs : List α) : optAll (vs.map some) = some vs := by
  induction vs with
  | nil => rfl
  | cons v vs ih => simp [optAll, ih]

theorem optAll_eq_some_iff {α : Type} (xs : List (Option α)) (vs : List α) :
    optAll xs = some vs ↔ xs = vs.map some := by
  constructor
  · intro h
    induction xs generalizing vs with
    | nil => simp only [optAll, Option.some.injEq] at h; subst h; rfl
    | cons x xs ih =>
      cases x with
      | none => simp [optAll] at h
      | some a =>
        simp only [optAll] at h
        cases hr : optAll xs with
        | none => simp [hr] at h
        | some as =>
          simp only [hr, Option.some.injEq] at h
          subst h
          simp [ih as hr]
  · rintro rfl
    exact optAll_map_some vs

theorem mapM_eq_optAll {α β : Type} (f : α → Option β) (l : List α) : l.mapM f = optAll (l.map f) := by
  induction l with
  | nil => rfl
  | cons a l ih =>
    rw [List.mapM_cons, ih]
    cases hf : f a with
    | none => simp [optAll, hf]
    | some b =>
      cases hr : optAll (l.map f) with
      | none => simp [optAll, hf, hr]
      | some bs => simp [optAll, hf, hr]

section
variable {R V I : Type} [Region R V I]

theorem readAll_eq_optAll (inner : R) (is : List I) : readAll inner is = optAll (is.map (index inner)) := by
  induction is with
  | nil => rfl
  | cons i is ih =>
    simp only [readAll, List.map_cons]
    rw [ih]
    cases hi : index inner i with
    | none => simp [optAll]
    | some v =>
      cases hr : optAll (is.map (index inner)) with
      | none => simp [optAll, hr]
      | some vs => simp [optAll, hr]

/-- a successful `readRow` reads position `k` exactly like `ReadColumnsInner::get` -/
theorem readRow_get (cs : List R) (is : List I) (vs : List V) (h : readRow cs is = some vs) (k : Nat) :
    (match cs[k]?, is[k]? with
      | some c, some i => index c i
      | _, _ => none) = vs[k]? := by
  induction is generalizing cs vs k with
  | nil =>
    simp only [readRow_nil, Option.some.injEq] at h
    subst h
    cases cs[k]? <;> simp
  | cons i is ih =>
    cases cs with
    | nil => simp [readRow] at h
    | cons c cs =>
      simp only [readRow] at h
      cases hi : index c i with
      | none => simp [hi] at h
      | some v =>
        cases hr : readRow cs is with
        | none => simp [hi, hr] at h
        | some vs' =>
          simp only [hi, hr, Option.some.injEq] at h
          subst h
          cases k with
          | zero => simp [hi]
          | succ k => simpa using ih cs vs' hr k

theorem readRow_length (cs : List R) (is : List I) (vs : List V) (h : readRow cs is = some vs) :
    vs.length = is.length := by
  induction is generalizing cs vs with
  | nil => simp only [readRow_nil, Option.some.injEq] at h; subst h; rfl
  | cons i is ih =>
    cases cs with
    | nil => simp [readRow] at h
    | cons c cs =>
      simp only [readRow] at h
      cases hi : index c i with
      | none => simp [hi] at h
      | some v =>
        cases hr : readRow cs is with
        | none => simp [hi, hr] at h
        | some vs' =>
          simp only [hi, hr, Option.some.injEq] at h
          subst h
          simp [ih cs vs' hr]

end

/-! ### `clone_onto`: zip / extend / truncate -/

theorem map_fst_zip_eq_take {α β : Type} (items : List α) (t : List β) :
    (List.zip items t).map (·.1) = items.take t.length := by
  induction items generalizing t with
  | nil => simp
  | cons a items ih =>
    cases t with
    | nil => simp
    | cons b t => simp [ih]

/-- The list computation of `clone_onto`: overwrite the common prefix, extend with what the target
lacks, truncate to the source length. Whatever the target held, the result is the source. -/
theorem cloneOnto_list {α : Type} (items t : List α) :
    (((List.zip items t).map (·.1) ++ t.drop ((List.zip items t).map (·.1)).length ++
        items.drop (min items.length t.length)).take items.length) = items := by
  rw [map_fst_zip_eq_take items t]
  rcases Nat.lt_or_ge t.length items.length with hlt | hge
  · have h1 : (items.take t.length).length = t.length := by simp; omega
    rw [h1, List.drop_length, List.append_nil, Nat.min_eq_right (Nat.le_of_lt hlt), List.take_append_drop,
      List.take_length]
  · rw [List.take_of_length_le hge, Nat.min_eq_left hge, List.drop_length, List.append_nil,
      List.take_append_of_le_length (Nat.le_refl _), List.take_length]

/-! ### `ReadSlice` -/
namespace ReadSlice
variable {R V I O : Type} [Region R V I] [IdxCont O I]

/-- the element reads an iteration performs, each of which may panic (`none`) -/
def reads : ReadSlice R O V → List (Option V)
  | backed r s e => (List.range (e - s)).map fun k => (IdxCont.index r.slices (s + k)).bind (index r.inner)
  | borrowed vs => vs.map some

/-- `Region::reborrow` for the read item (src/impls/slice.rs:133): the identity, lifetimes only -/
def reborrow (x : ReadSlice R O V) : ReadSlice R O V := x

/-- the states in which the Rust type can exist: issued by `index` on a consistent region, or
borrowed from an owned vector -/
def WF : ReadSlice R O V → Prop
  | backed r s e => Inv r ∧ Valid r (s, e)
  | borrowed _ => True

theorem iter_eq_optAll (x : ReadSlice R O V) : x.iter = optAll x.reads := by
  cases x with
  | backed r s e => simp only [iter, reads, mapM_eq_optAll]
  | borrowed vs => simp only [iter, reads, optAll_map_some]

theorem iter_eq_some_iff (x : ReadSlice R O V) (vs : List V) : x.iter = some vs ↔ x.reads = vs.map some := by
  rw [iter_eq_optAll, optAll_eq_some_iff]

theorem reads_length (x : ReadSlice R O V) : x.reads.length = x.len := by
  cases x <;> simp [reads, len]

theorem get_eq_reads (x : ReadSlice R O V) (k : Nat) : x.get k = (x.reads[k]?).bind id := by
  cases x with
  | backed r s e =>
    simp only [get, reads, List.getElem?_map]
    by_cases h : k < e - s <;> simp [h]
  | borrowed vs =>
    simp only [get, reads, List.getElem?_map]
    cases vs[k]? <;> rfl

theorem len_of_iter (x : ReadSlice R O V) (vs : List V) (h : x.iter = some vs) : x.len = vs.length := by
  rw [← reads_length, (iter_eq_some_iff x vs).mp h, List.length_map]

theorem get_of_iter (x : ReadSlice R O V) (vs : List V) (h : x.iter = some vs) (k : Nat) : x.get k = vs[k]? := by
  rw [get_eq_reads, (iter_eq_some_iff x vs).mp h, List.getElem?_map]
  cases vs[k]? <;> rfl

theorem get_eq_getLegacy (x : ReadSlice R O V) (k : Nat) (h : k ≠ x.len) : x.get k = x.getLegacy k := by
  cases x with
  | backed r s e =>
    simp only [len] at h
    simp only [get, getLegacy]
    by_cases h1 : k < e - s
    · simp [h1, Nat.le_of_lt h1]
    · have h2 : ¬ k ≤ e - s := by omega
      simp [h1, h2]
  | borrowed vs => rfl

variable [LawfulRegion R] [LawfulIdxCont O]

omit [LawfulRegion R] in
/-- a region-backed item reads the stored indices `start..end` -/
theorem reads_backed (r : SliceRegion R O) (s e : Nat) (hc : IdxCont.Inv r.slices)
    (he : e ≤ (IdxCont.iter r.slices).length) :
    (backed r s e : ReadSlice R O V).reads =
      (((IdxCont.iter r.slices).drop s).take (e - s)).map (index r.inner) := by
  apply List.ext_getElem?
  intro k
  simp only [reads, List.getElem?_map, List.getElem?_take, List.getElem?_drop,
    LawfulIdxCont.index_eq _ _ hc]
  by_cases hk : k < e - s
  · have : s + k < (IdxCont.iter r.slices).length := by omega
    simp [hk, List.getElem?_eq_getElem this]
  · simp [hk]

omit [LawfulRegion R] in
/-- iterating the item issued for `(s, e)` is `Region::index` of the slice region at `(s, e)` -/
theorem iter_backed_eq_index (r : SliceRegion R O) (i : Nat × Nat) (hc : IdxCont.Inv r.slices)
    (hv : Valid r i) : (backed r i.1 i.2 : ReadSlice R O V).iter = index r i := by
  have hv' : i.1 ≤ i.2 ∧ i.2 ≤ (IdxCont.iter r.slices).length := hv
  rw [iter_eq_optAll, reads_backed r i.1 i.2 hc hv'.2, ← readAll_eq_optAll]
  simp only [Region.index, hv', and_self, if_true]

theorem wf_iter (x : ReadSlice R O V) (h : x.WF) : ∃ vs, x.iter = some vs := by
  cases x with
  | backed r s e =>
    obtain ⟨hi, hv⟩ := h
    obtain ⟨vs, hvs⟩ := LawfulRegion.valid_reads r (s, e) hi hv
    exact ⟨vs, by rw [← hvs]; exact iter_backed_eq_index r (s, e) hi.2.1 hv⟩
  | borrowed vs => exact ⟨vs, rfl⟩

end ReadSlice

/-! ### `ReadColumns` -/
namespace ReadColumns
variable {R V I : Type} [Region R V I]

/-- `Region::reborrow` for the read item (src/impls/columns.rs:161): the identity -/
def reborrow (x : ReadColumns R I V) : ReadColumns R I V := x

/-- issued by `index` on a consistent region (every column consistent, the row of indices valid
for the columns), or borrowed -/
def WF : ReadColumns R I V → Prop
  | backed cols ix => (∀ c ∈ cols, Inv c) ∧ RowValid cols ix
  | borrowed _ => True

theorem len_of_iter (x : ReadColumns R I V) (vs : List V) (h : x.iter = some vs) : x.len = vs.length := by
  cases x with
  | backed cols ix => exact (readRow_length cols ix vs h).symm
  | borrowed ws => simp only [iter, Option.some.injEq] at h; subst h; rfl

theorem get_of_iter (x : ReadColumns R I V) (vs : List V) (h : x.iter = some vs) (k : Nat) : x.get k = vs[k]? := by
  cases x with
  | backed cols ix => exact readRow_get cols ix vs h k
  | borrowed ws => simp only [iter, Option.some.injEq] at h; subst h; rfl

theorem wf_iter [LawfulRegion R] (x : ReadColumns R I V) (h : x.WF) : ∃ vs, x.iter = some vs := by
  cases x with
  | backed cols ix => exact readRow_some_of_valid cols ix h.1 h.2
  | borrowed vs => exact ⟨vs, rfl⟩

end ReadColumns

/-! ### Comparisons (`Iterator::eq`, `Iterator::cmp` on the item iterators) -/

/-- `==` on owned vectors: same length, element-wise `==` -/
def listEq {V : Type} (eqV : V → V → Bool) : List V → List V → Bool
  | [], [] => true
  | a :: as, b :: bs => eqV a b && listEq eqV as bs
  | _, _ => false

/-- `Ord for [T]`: lexicographic, a proper prefix is smaller -/
def lexCmp {V : Type} (cmpV : V → V → Ordering) : List V → List V → Ordering
  | [], [] => .eq
  | [], _ :: _ => .lt
  | _ :: _, [] => .gt
  | a :: as, b :: bs =>
    match cmpV a b with
    | .eq => lexCmp cmpV as bs
    | o => o

/-- `Iterator::cmp_by` as std implements it (`iter_compare`): pull from `a`; if it yields, pull from
`b`; compare; stop at the first difference. Elements are reads that may panic (`none`); a panic
only happens if the read is actually performed. -/
def iterCmp {V : Type} (cmpV : V → V → Ordering) : List (Option V) → List (Option V) → Option Ordering
  | [], [] => some .eq
  | [], none :: _ => none
  | [], some _ :: _ => some .lt
  | none :: _, _ => none
  | some _ :: _, [] => some .gt
  | some _ :: _, none :: _ => none
  | some a :: as, some b :: bs =>
    match cmpV a b with
    | .eq => iterCmp cmpV as bs
    | o => some o

/-- `Iterator::eq_by`: the same loop with `==`, `true` iff it runs off both ends together -/
def iterEq {V : Type} (eqV : V → V → Bool) : List (Option V) → List (Option V) → Option Bool
  | [], [] => some true
  | [], none :: _ => none
  | [], some _ :: _ => some false
  | none :: _, _ => none
  | some _ :: _, [] => some false
  | some _ :: _, none :: _ => none
  | some a :: as, some b :: bs => if eqV a b then iterEq eqV as bs else some false

theorem iterCmp_map_some {V : Type} (cmpV : V → V → Ordering) (xs ys : List V) :
    iterCmp cmpV (xs.map some) (ys.map some) = some (lexCmp cmpV xs ys) := by
  induction xs generalizing ys with
  | nil => cases ys <;> rfl
  | cons x xs ih =>
    cases ys with
    | nil => rfl
    | cons y ys =>
      simp only [List.map_cons, iterCmp, lexCmp]
      cases h : cmpV x y <;> simp [ih]

theorem iterEq_map_some {V : Type} (eqV : V → V → Bool) (xs ys : List V) :
    iterEq eqV (xs.map some) (ys.map some) = some (listEq eqV xs ys) := by
  induction xs generalizing ys with
  | nil => cases ys <;> rfl
  | cons x xs ih =>
    cases ys with
    | nil => rfl
    | cons y ys =>
      simp only [List.map_cons, iterEq, listEq]
      cases h : eqV x y <;> simp [ih]

namespace ReadSlice
variable {R V I O : Type} [Region R V I] [IdxCont O I]

/-- `PartialEq for ReadSlice`: `self.iter().eq(*other)`; `none` = an element read panicked -/
def eq (eqV : V → V → Bool) (a b : ReadSlice R O V) : Option Bool := iterEq eqV a.reads b.reads
/-- `Ord for ReadSlice`: `self.iter().cmp(*other)` -/
def cmp (cmpV : V → V → Ordering) (a b : ReadSlice R O V) : Option Ordering := iterCmp cmpV a.reads b.reads

end ReadSlice

/-- what C15 assumes of the element order (`Ord` contract of `R::ReadItem`) -/
structure LawfulCmp {V : Type} (cmpV : V → V → Ordering) : Prop where
  refl : ∀ x, cmpV x x = .eq
  antisymm : ∀ x y, cmpV x y = .lt ↔ cmpV y x = .gt
  trans_lt : ∀ x y z, cmpV x y = .lt → cmpV y z = .lt → cmpV x z = .lt
  eq_imp : ∀ x y, cmpV x y = .eq → x = y

namespace LawfulCmp
variable {V : Type} {cmpV : V → V → Ordering} (L : LawfulCmp cmpV)
include L

theorem eq_symm (x y : V) (h : cmpV x y = .eq) : cmpV y x = .eq := by
  have := L.eq_imp x y h
  subst this
  exact h

theorem lex_refl (xs : List V) : lexCmp cmpV xs xs = .eq := by
  induction xs with
  | nil => rfl
  | cons x xs ih => simp [lexCmp, L.refl, ih]

theorem lex_eq_iff (xs ys : List V) : lexCmp cmpV xs ys = .eq ↔ xs = ys := by
  constructor
  · intro h
    induction xs generalizing ys with
    | nil => cases ys with
      | nil => rfl
      | cons y ys => simp [lexCmp] at h
    | cons x xs ih =>
      cases ys with
      | nil => simp [lexCmp] at h
      | cons y ys =>
        simp only [lexCmp] at h
        cases hc : cmpV x y with
        | lt => simp [hc] at h
        | gt => simp [hc] at h
        | eq =>
          simp only [hc] at h
          rw [L.eq_imp x y hc, ih ys h]
  · rintro rfl
    exact L.lex_refl xs

theorem lex_antisymm (xs ys : List V) : lexCmp cmpV xs ys = .lt ↔ lexCmp cmpV ys xs = .gt := by
  induction xs generalizing ys with
  | nil => cases ys <;> simp [lexCmp]
  | cons x xs ih =>
    cases ys with
    | nil => simp [lexCmp]
    | cons y ys =>
      simp only [lexCmp]
      cases hc : cmpV x y with
      | lt => simp [(L.antisymm x y).mp hc]
      | eq => simp only [L.eq_symm x y hc]; exact ih ys
      | gt =>
        have : cmpV y x = .lt := (L.antisymm y x).mpr hc
        simp [this]

theorem lex_swap (xs ys : List V) : lexCmp cmpV ys xs = (lexCmp cmpV xs ys).swap := by
  cases h : lexCmp cmpV xs ys with
  | lt => simpa using (L.lex_antisymm xs ys).mp h
  | eq => rw [(L.lex_eq_iff xs ys).mp h]; simpa using L.lex_refl ys
  | gt => simpa using (L.lex_antisymm ys xs).mpr h

theorem lex_trans (xs ys zs : List V) (h1 : lexCmp cmpV xs ys = .lt) (h2 : lexCmp cmpV ys zs = .lt) :
    lexCmp cmpV xs zs = .lt := by
  induction xs generalizing ys zs with
  | nil =>
    cases ys with
    | nil => simp [lexCmp] at h1
    | cons y ys =>
      cases zs with
      | nil => simp [lexCmp] at h2
      | cons z zs => rfl
  | cons x xs ih =>
    cases ys with
    | nil => simp [lexCmp] at h1
    | cons y ys =>
      cases zs with
      | nil => simp [lexCmp] at h2
      | cons z zs =>
        simp only [lexCmp] at h1 h2 ⊢
        cases hxy : cmpV x y with
        | gt => simp [hxy] at h1
        | lt =>
          cases hyz : cmpV y z with
          | gt => simp [hyz] at h2
          | lt => simp [L.trans_lt x y z hxy hyz]
          | eq =>
            have := L.eq_imp y z hyz
            subst this
            simp [hxy]
        | eq =>
          have := L.eq_imp x y hxy
          subst this
          simp only [hxy] at h1
          cases hyz : cmpV x z with
          | gt => simp [hyz] at h2
          | lt => rfl
          | eq =>
            simp only [hyz] at h2
            exact ih ys zs h1 h2

end LawfulCmp

/-- `==` and `cmp` agree when they agree on elements -/
theorem listEq_eq_lexCmp {V : Type} (eqV : V → V → Bool) (cmpV : V → V → Ordering)
    (h : ∀ x y, eqV x y = true ↔ cmpV x y = .eq) (xs ys : List V) :
    listEq eqV xs ys = true ↔ lexCmp cmpV xs ys = .eq := by
  induction xs generalizing ys with
  | nil => cases ys <;> simp [listEq, lexCmp]
  | cons x xs ih =>
    cases ys with
    | nil => simp [listEq, lexCmp]
    | cons y ys =>
      simp only [listEq, lexCmp, Bool.and_eq_true, h, ih]
      cases hc : cmpV x y <;> simp

/-! ### Concrete small regions used by the `example`s of C13–C15 (satisfiability of hypotheses) -/
namespace ItemsEx

/-- two adjacent items `[10, 20]` at `(0, 2)` and `[30]` at `(2, 3)` -/
def twoItems : SliceRegion (MirrorRegion Nat) (VecIdx Nat 8) := ⟨⟨[10, 20, 30]⟩, {}⟩
theorem twoItems_inv : Inv twoItems := ⟨trivial, trivial, fun _ _ => trivial⟩
theorem twoItems_valid₁ : Valid twoItems (0, 2) := by show 0 ≤ 2 ∧ 2 ≤ 3; decide
theorem twoItems_valid₂ : Valid twoItems (2, 3) := by show 2 ≤ 3 ∧ 3 ≤ 3; decide

/-- a destination region already holding one item `[7]` -/
def dst : SliceRegion (MirrorRegion Nat) (VecIdx Nat 8) := ⟨⟨[7]⟩, {}⟩
theorem dst_inv : Inv dst := ⟨trivial, trivial, fun _ _ => trivial⟩
theorem dst_accepts : Accepts dst [10, 20] := ⟨trivial, fun _ _ _ => ⟨trivial, fun _ _ _ => trivial⟩⟩

/-- elements `1 1 2 1 1`, to cut items `[1, 1]`, `[1, 1, 2]`, `[2, 1]` from -/
def reg : SliceRegion (MirrorRegion Nat) (VecIdx Nat 8) := ⟨⟨[1, 1, 2, 1, 1]⟩, {}⟩

/-- a row region with two columns holding the rows `[1, 2]` and `[3]`: the state after
`push [1, 2]; push [3]` on the default region, hence consistent -/
def oneRow : ColumnsRegion (MirrorRegion Nat) Nat (VecIdx Nat 8) :=
  ⟨⟨⟨⟨[1, 2], 2⟩⟩, ⟨[0, 2]⟩, 2⟩, [{}, {}]⟩
def twoRows : ColumnsRegion (MirrorRegion Nat) Nat (VecIdx Nat 8) :=
  ⟨⟨⟨⟨[1, 2, 3], 4⟩⟩, ⟨[0, 2, 3]⟩, 3⟩, [{}, {}]⟩
theorem oneRow_push :
    push (Region.default : ColumnsRegion (MirrorRegion Nat) Nat (VecIdx Nat 8)) [1, 2] = some (oneRow, 0) := rfl
theorem twoRows_push : push oneRow [3] = some (twoRows, 1) := rfl
theorem twoRows_inv : Inv twoRows ∧ Valid twoRows 0 ∧ Valid twoRows 1 := by
  have h1 := LawfulRegion.push_inv _ _ _ _ LawfulRegion.inv_default oneRow_push
  have h2 := LawfulRegion.push_inv _ _ _ _ h1.1 twoRows_push
  exact ⟨h2.1, (LawfulRegion.frame _ _ _ _ _ h1.1 h1.2 twoRows_push).1, h2.2⟩

/-- `Ord for usize` satisfies `LawfulCmp` -/
theorem natCmp_lawful : LawfulCmp (compare : Nat → Nat → Ordering) where
  refl x := by simp
  antisymm x y := by rw [Nat.compare_eq_lt, Nat.compare_eq_gt]
  trans_lt x y z := by simp only [Nat.compare_eq_lt]; omega
  eq_imp x y := by simp

end ItemsEx

end FC
