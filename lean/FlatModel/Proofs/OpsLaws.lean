import FlatModel.Proofs.Ops
import FlatModel.Props.Catalogue
/-! Laws of the non-`push` half of the traits (C09, C10): reservations are invisible, merged regions
are fresh, clones are equal — all up to `Sim`, the bisimulation of `LawfulRegion`. -/
namespace FC
open Region

/-- index containers: the `Storage` operations never change the represented sequence -/
class LawfulIdxAux (O : Type) {T : outParam Type} [IdxCont O T] [IdxAux O] : Prop where
  reserve_iter : ∀ (c : O) n, IdxCont.iter (IdxAux.reserve c n) = IdxCont.iter c
  reserve_inv : ∀ (c : O) n, IdxCont.Inv c → IdxCont.Inv (IdxAux.reserve c n)
  withCapacity_iter : ∀ n, IdxCont.iter (IdxAux.withCapacity n : O) = []
  withCapacity_inv : ∀ n, IdxCont.Inv (IdxAux.withCapacity n : O)
  merge_iter : ∀ rs : List O, IdxCont.iter (IdxAux.mergeRegions rs) = []
  merge_inv : ∀ rs : List O, IdxCont.Inv (IdxAux.mergeRegions rs)
  clone_iter : ∀ c : O, IdxCont.iter (IdxAux.clone c) = IdxCont.iter c
  clone_inv : ∀ c : O, IdxCont.Inv c → IdxCont.Inv (IdxAux.clone c)
  cloneFrom_iter : ∀ d s : O, IdxCont.iter (IdxAux.cloneFrom d s) = IdxCont.iter s
  cloneFrom_inv : ∀ d s : O, IdxCont.Inv s → IdxCont.Inv (IdxAux.cloneFrom d s)

instance {C T : Type} [IdxCont C T] [HasStores C] [L : LawfulIdxCont C] : LawfulIdxAux (Capd C) where
  reserve_iter _ _ := rfl
  reserve_inv _ _ h := h
  withCapacity_iter _ := L.iter_default
  withCapacity_inv _ := L.inv_default
  merge_iter _ := L.iter_default
  merge_inv _ := L.inv_default
  clone_iter _ := rfl
  clone_inv _ h := h
  cloneFrom_iter _ _ := rfl
  cloneFrom_inv _ _ h := h

/-- regions: C10 (`reserve_*` invisible), C09 (`clone`, `clone_from` equal to the source) -/
class LawfulAux (R : Type) {V I : outParam Type} [Region R V I] [RegionAux R] : Prop where
  reserveItems_sim : ∀ (r : R) vs, Inv r → Sim (RegionAux.reserveItems r vs) r ∧ Inv (RegionAux.reserveItems r vs)
  reserveRegions_sim : ∀ (r : R) rs, Inv r → (∀ x ∈ rs, Region.Inv x) →
      Sim (RegionAux.reserveRegions r rs) r ∧ Inv (RegionAux.reserveRegions r rs)
  clone_sim : ∀ r : R, Inv r → Sim (RegionAux.clone r) r ∧ Inv (RegionAux.clone r)
  cloneFrom_sim : ∀ d s : R, Inv d → Inv s → Sim (RegionAux.cloneFrom d s) s ∧ Inv (RegionAux.cloneFrom d s)

/-- uncoded regions: a merged region is observationally a default one, whatever it was sized from -/
class LawfulMerge (R : Type) {V I : outParam Type} [Region R V I] [RegionAux R] : Prop where
  merge_fresh : ∀ rs : List R, (∀ x ∈ rs, Region.Inv x) →
      Sim (RegionAux.mergeRegions rs) (default : R) ∧ Inv (RegionAux.mergeRegions rs)

/-- the cursor of a dense region is an observable of `Sim` -/
class DenseSim (R : Type) {V : outParam Type} [Region R V (Nat × Nat)] [DenseRegion R] : Prop where
  cursor_sim : ∀ a b : R, Sim a b → DenseRegion.cursor a = DenseRegion.cursor b

/-! ### terminals -/
instance (T : Type) : LawfulAux (MirrorRegion T) where
  reserveItems_sim _ _ _ := ⟨trivial, trivial⟩
  reserveRegions_sim _ _ _ _ := ⟨trivial, trivial⟩
  clone_sim _ _ := ⟨trivial, trivial⟩
  cloneFrom_sim _ _ _ _ := ⟨trivial, trivial⟩
instance (T : Type) : LawfulMerge (MirrorRegion T) where
  merge_fresh _ _ := ⟨trivial, trivial⟩

instance (T : Type) [ElemSize T] : LawfulAux (OwnedRegion T) where
  reserveItems_sim _ _ _ := ⟨by simp [Region.Sim, RegionAux.reserveItems], trivial⟩
  reserveRegions_sim _ _ _ _ := ⟨by simp [Region.Sim, RegionAux.reserveRegions], trivial⟩
  clone_sim _ _ := ⟨by simp [Region.Sim, RegionAux.clone], trivial⟩
  cloneFrom_sim _ _ _ _ := ⟨by simp [Region.Sim, RegionAux.cloneFrom], trivial⟩
instance (T : Type) [ElemSize T] : LawfulMerge (OwnedRegion T) where
  merge_fresh _ _ := ⟨by simp [Region.Sim, RegionAux.mergeRegions, Region.default], trivial⟩
instance (T : Type) : DenseSim (OwnedRegion T) where
  cursor_sim a b h := by simp only [Region.Sim] at h; simp [DenseRegion.cursor, MVec.len, h]

instance (T : Type) [ElemSize T] : LawfulAux (VecRegion T) where
  reserveItems_sim _ _ _ := ⟨by simp [Region.Sim, RegionAux.reserveItems], trivial⟩
  reserveRegions_sim _ _ _ _ := ⟨by simp [Region.Sim, RegionAux.reserveRegions], trivial⟩
  clone_sim _ _ := ⟨by simp [Region.Sim, RegionAux.clone], trivial⟩
  cloneFrom_sim _ _ _ _ := ⟨by simp [Region.Sim, RegionAux.cloneFrom], trivial⟩
instance (T : Type) [ElemSize T] : LawfulMerge (VecRegion T) where
  merge_fresh _ _ := ⟨by simp [Region.Sim, RegionAux.mergeRegions, Region.default], trivial⟩

/-! ### wrappers that only forward -/
section Forward
variable {R V I : Type} [Region R V I] [RegionAux R] [LawfulAux R]

instance {R I : Type} [Region R (List UInt8) I] [RegionAux R] [LawfulAux R] : LawfulAux (StringRegion R) where
  reserveItems_sim r vs hi := LawfulAux.reserveItems_sim r.inner vs hi
  reserveRegions_sim r rs hi hs := LawfulAux.reserveRegions_sim r.inner (rs.map (·.inner)) hi (by
    intro x hx; simp only [List.mem_map] at hx; obtain ⟨y, hy, rfl⟩ := hx; exact hs y hy)
  clone_sim r hi := LawfulAux.clone_sim r.inner hi
  cloneFrom_sim d s hd hs := LawfulAux.cloneFrom_sim d.inner s.inner hd hs
instance {R I : Type} [Region R (List UInt8) I] [RegionAux R] [LawfulMerge R] : LawfulMerge (StringRegion R) where
  merge_fresh rs hs := LawfulMerge.merge_fresh (rs.map (·.inner)) (by
    intro x hx; simp only [List.mem_map] at hx; obtain ⟨y, hy, rfl⟩ := hx; exact hs y hy)
instance {R : Type} [Region R (List UInt8) (Nat × Nat)] [DenseRegion R] [DenseSim R] : DenseSim (StringRegion R) where
  cursor_sim a b h := DenseSim.cursor_sim a.inner b.inner h

instance : LawfulAux (OptionRegion R) where
  reserveItems_sim r vs hi := LawfulAux.reserveItems_sim r.inner _ hi
  reserveRegions_sim r rs hi hs := LawfulAux.reserveRegions_sim r.inner (rs.map (·.inner)) hi (by
    intro x hx; simp only [List.mem_map] at hx; obtain ⟨y, hy, rfl⟩ := hx; exact hs y hy)
  clone_sim r hi := LawfulAux.clone_sim r.inner hi
  cloneFrom_sim d s hd hs := LawfulAux.cloneFrom_sim d.inner s.inner hd hs
instance [LawfulMerge R] : LawfulMerge (OptionRegion R) where
  merge_fresh rs hs := LawfulMerge.merge_fresh (rs.map (·.inner)) (by
    intro x hx; simp only [List.mem_map] at hx; obtain ⟨y, hy, rfl⟩ := hx; exact hs y hy)
end Forward

section Result
variable {T VT IT E VE IE : Type} [Region T VT IT] [Region E VE IE] [RegionAux T] [RegionAux E]

theorem mem_map_inv {A B : Type} (P : B → Prop) (f : A → B) (Q : A → Prop) (l : List A)
    (h : ∀ x ∈ l, Q x) (hf : ∀ x, Q x → P (f x)) : ∀ y ∈ l.map f, P y := by
  intro y hy; simp only [List.mem_map] at hy; obtain ⟨x, hx, rfl⟩ := hy; exact hf x (h x hx)

instance [LawfulAux T] [LawfulAux E] : LawfulAux (ResultRegion T E) where
  reserveItems_sim r vs hi :=
    ⟨⟨(LawfulAux.reserveItems_sim r.oks _ hi.1).1, (LawfulAux.reserveItems_sim r.errs _ hi.2).1⟩,
     ⟨(LawfulAux.reserveItems_sim r.oks _ hi.1).2, (LawfulAux.reserveItems_sim r.errs _ hi.2).2⟩⟩
  reserveRegions_sim r rs hi hs :=
    have h1 := LawfulAux.reserveRegions_sim r.oks (rs.map (·.oks)) hi.1 (mem_map_inv _ _ _ rs hs fun _ h => h.1)
    have h2 := LawfulAux.reserveRegions_sim r.errs (rs.map (·.errs)) hi.2 (mem_map_inv _ _ _ rs hs fun _ h => h.2)
    ⟨⟨h1.1, h2.1⟩, ⟨h1.2, h2.2⟩⟩
  clone_sim r hi :=
    ⟨⟨(LawfulAux.clone_sim r.oks hi.1).1, (LawfulAux.clone_sim r.errs hi.2).1⟩,
     ⟨(LawfulAux.clone_sim r.oks hi.1).2, (LawfulAux.clone_sim r.errs hi.2).2⟩⟩
  cloneFrom_sim d s hd hs :=
    have h1 := LawfulAux.cloneFrom_sim d.oks s.oks hd.1 hs.1
    have h2 := LawfulAux.cloneFrom_sim d.errs s.errs hd.2 hs.2
    ⟨⟨h1.1, h2.1⟩, ⟨h1.2, h2.2⟩⟩
instance [LawfulMerge T] [LawfulMerge E] : LawfulMerge (ResultRegion T E) where
  merge_fresh rs hs :=
    have h1 := LawfulMerge.merge_fresh (rs.map (·.oks)) (mem_map_inv _ _ _ rs hs fun _ h => h.1)
    have h2 := LawfulMerge.merge_fresh (rs.map (·.errs)) (mem_map_inv _ _ _ rs hs fun _ h => h.2)
    ⟨⟨h1.1, h2.1⟩, ⟨h1.2, h2.2⟩⟩
end Result

instance : LawfulAux TupleNil where
  reserveItems_sim _ _ _ := ⟨trivial, trivial⟩
  reserveRegions_sim _ _ _ _ := ⟨trivial, trivial⟩
  clone_sim _ _ := ⟨trivial, trivial⟩
  cloneFrom_sim _ _ _ _ := ⟨trivial, trivial⟩
instance : LawfulMerge TupleNil where
  merge_fresh _ _ := ⟨trivial, trivial⟩

section Tuple
variable {A VA IA B VB IB : Type} [Region A VA IA] [Region B VB IB] [RegionAux A] [RegionAux B]
instance [LawfulAux A] [LawfulAux B] : LawfulAux (TupleCons A B) where
  reserveItems_sim r vs hi :=
    ⟨⟨(LawfulAux.reserveItems_sim r.head _ hi.1).1, (LawfulAux.reserveItems_sim r.tail _ hi.2).1⟩,
     ⟨(LawfulAux.reserveItems_sim r.head _ hi.1).2, (LawfulAux.reserveItems_sim r.tail _ hi.2).2⟩⟩
  reserveRegions_sim r rs hi hs :=
    have h1 := LawfulAux.reserveRegions_sim r.head (rs.map (·.head)) hi.1 (mem_map_inv _ _ _ rs hs fun _ h => h.1)
    have h2 := LawfulAux.reserveRegions_sim r.tail (rs.map (·.tail)) hi.2 (mem_map_inv _ _ _ rs hs fun _ h => h.2)
    ⟨⟨h1.1, h2.1⟩, ⟨h1.2, h2.2⟩⟩
  clone_sim r hi :=
    ⟨⟨(LawfulAux.clone_sim r.head hi.1).1, (LawfulAux.clone_sim r.tail hi.2).1⟩,
     ⟨(LawfulAux.clone_sim r.head hi.1).2, (LawfulAux.clone_sim r.tail hi.2).2⟩⟩
  cloneFrom_sim d s hd hs :=
    have h1 := LawfulAux.cloneFrom_sim d.head s.head hd.1 hs.1
    have h2 := LawfulAux.cloneFrom_sim d.tail s.tail hd.2 hs.2
    ⟨⟨h1.1, h2.1⟩, ⟨h1.2, h2.2⟩⟩
instance [LawfulMerge A] [LawfulMerge B] : LawfulMerge (TupleCons A B) where
  merge_fresh rs hs :=
    have h1 := LawfulMerge.merge_fresh (rs.map (·.head)) (mem_map_inv _ _ _ rs hs fun _ h => h.1)
    have h2 := LawfulMerge.merge_fresh (rs.map (·.tail)) (mem_map_inv _ _ _ rs hs fun _ h => h.2)
    ⟨⟨h1.1, h2.1⟩, ⟨h1.2, h2.2⟩⟩
end Tuple

section
variable {R V I : Type} [Region R V I] [LawfulRegion R]
/-- a remembered index stays valid in a `Sim`-equivalent inner region -/
theorem valid_of_sim (a b : R) (hs : Sim a b) (ha : Inv a) (hb : Inv b) (j : I) (hv : Valid b j) : Valid a j :=
  ((LawfulRegion.sim_index a b j hs ha hb).1).mpr hv

end

/-! ### collapse -/
section Collapse
variable {R V I : Type} [Region R V I] [HasEqv V] [RegionAux R] [IndexSize I] [LawfulRegion R]

instance [LawfulAux R] : LawfulAux (CollapseSequence R I) where
  reserveItems_sim r _ hi := ⟨⟨LawfulRegion.sim_refl r.inner hi.1, rfl⟩, hi⟩
  reserveRegions_sim r rs hi hs := by
    have h := LawfulAux.reserveRegions_sim r.inner (rs.map (·.inner)) hi.1 (mem_map_inv _ _ _ rs hs fun _ h => h.1)
    exact ⟨⟨h.1, rfl⟩, h.2, fun li hl => valid_of_sim _ _ h.1 h.2 hi.1 li (hi.2 li hl)⟩
  clone_sim r hi := by
    have h := LawfulAux.clone_sim r.inner hi.1
    exact ⟨⟨h.1, rfl⟩, h.2, fun li hl => valid_of_sim _ _ h.1 h.2 hi.1 li (hi.2 li hl)⟩
  cloneFrom_sim d s hd hs := by
    have h := LawfulAux.cloneFrom_sim d.inner s.inner hd.1 hs.1
    exact ⟨⟨h.1, rfl⟩, h.2, fun li hl => valid_of_sim _ _ h.1 h.2 hs.1 li (hs.2 li hl)⟩
instance [LawfulMerge R] : LawfulMerge (CollapseSequence R I) where
  merge_fresh rs hs := by
    have h := LawfulMerge.merge_fresh (rs.map (·.inner)) (mem_map_inv _ _ _ rs hs fun _ h => h.1)
    exact ⟨⟨h.1, rfl⟩, h.2, fun li hl => by simp [RegionAux.mergeRegions] at hl⟩
end Collapse

/-! ### slices -/
section Slice
variable {R V I O : Type} [Region R V I] [IdxCont O I] [RegionAux R] [IdxAux O]
  [LawfulRegion R] [LawfulIdxCont O] [LawfulIdxAux O]

instance [LawfulAux R] : LawfulAux (SliceRegion R O) where
  reserveItems_sim r vs hi := by
    have h := LawfulAux.reserveItems_sim r.inner vs.flatten hi.1
    refine ⟨⟨LawfulIdxAux.reserve_iter _ _, h.1⟩, h.2, LawfulIdxAux.reserve_inv _ _ hi.2.1, ?_⟩
    intro j hj
    rw [show (RegionAux.reserveItems r vs).slices = IdxAux.reserve r.slices ((vs.map List.length).sum) from rfl,
      LawfulIdxAux.reserve_iter] at hj
    exact valid_of_sim _ _ h.1 h.2 hi.1 j (hi.2.2 j hj)
  reserveRegions_sim r rs hi hs := by
    have h := LawfulAux.reserveRegions_sim r.inner (rs.map (·.inner)) hi.1 (mem_map_inv _ _ _ rs hs fun _ h => h.1)
    refine ⟨⟨LawfulIdxAux.reserve_iter _ _, h.1⟩, h.2, LawfulIdxAux.reserve_inv _ _ hi.2.1, ?_⟩
    intro j hj
    rw [show (RegionAux.reserveRegions r rs).slices = IdxAux.reserve r.slices ((rs.map fun x => IdxCont.len x.slices).sum) from rfl,
      LawfulIdxAux.reserve_iter] at hj
    exact valid_of_sim _ _ h.1 h.2 hi.1 j (hi.2.2 j hj)
  clone_sim r hi := by
    have h := LawfulAux.clone_sim r.inner hi.1
    refine ⟨⟨LawfulIdxAux.clone_iter _, h.1⟩, h.2, LawfulIdxAux.clone_inv _ hi.2.1, ?_⟩
    intro j hj
    rw [show (RegionAux.clone r).slices = IdxAux.clone r.slices from rfl, LawfulIdxAux.clone_iter] at hj
    exact valid_of_sim _ _ h.1 h.2 hi.1 j (hi.2.2 j hj)
  cloneFrom_sim d s hd hs := by
    have h := LawfulAux.cloneFrom_sim d.inner s.inner hd.1 hs.1
    refine ⟨⟨LawfulIdxAux.cloneFrom_iter _ _, h.1⟩, h.2, LawfulIdxAux.cloneFrom_inv _ _ hs.2.1, ?_⟩
    intro j hj
    rw [show (RegionAux.cloneFrom d s).slices = IdxAux.cloneFrom d.slices s.slices from rfl,
      LawfulIdxAux.cloneFrom_iter] at hj
    exact valid_of_sim _ _ h.1 h.2 hs.1 j (hs.2.2 j hj)

instance [LawfulMerge R] : LawfulMerge (SliceRegion R O) where
  merge_fresh rs hs := by
    have h := LawfulMerge.merge_fresh (rs.map (·.inner)) (mem_map_inv _ _ _ rs hs fun _ h => h.1)
    refine ⟨⟨?_, h.1⟩, h.2, LawfulIdxAux.merge_inv _, ?_⟩
    · rw [show (RegionAux.mergeRegions rs).slices = IdxAux.mergeRegions (rs.map (·.slices)) from rfl,
        LawfulIdxAux.merge_iter]
      exact (LawfulIdxCont.iter_default (C := O)).symm
    · intro j hj
      rw [show (RegionAux.mergeRegions rs).slices = IdxAux.mergeRegions (rs.map (·.slices)) from rfl,
        LawfulIdxAux.merge_iter] at hj
      simp at hj

/-- the unrepaired `merge_regions` (index container not pre-sized) is *semantically* fresh too:
D8 is purely an allocation defect (C17), invisible to C10 -/
theorem SliceRegion.mergeLegacy_fresh [LawfulMerge R] (rs : List (SliceRegion R O)) (hs : ∀ x ∈ rs, Region.Inv x) :
    Sim (SliceRegion.mergeLegacy rs) (default : SliceRegion R O) := by
  have h := LawfulMerge.merge_fresh (rs.map (·.inner)) (mem_map_inv _ _ _ rs hs fun _ h => h.1)
  exact ⟨rfl, h.1⟩

instance : DenseSim (SliceRegion R O) where
  cursor_sim a b h := by simp [DenseRegion.cursor, h.1]
end Slice

/-! ### FlatStack -/
section Stack
variable {R V I S : Type} [Region R V I] [IdxCont S I] [RegionAux R] [IdxAux S]
  [LawfulRegion R] [LawfulIdxCont S] [LawfulIdxAux S]

instance [LawfulAux R] : LawfulAux (FlatStack R S) where
  reserveItems_sim fs vs hi := by
    have h := LawfulAux.reserveItems_sim fs.region vs hi.1
    exact ⟨⟨rfl, h.1⟩, h.2, hi.2.1, fun j hj => valid_of_sim _ _ h.1 h.2 hi.1 j (hi.2.2 j hj)⟩
  reserveRegions_sim fs rs hi hs := by
    have h := LawfulAux.reserveRegions_sim fs.region (rs.map (·.region)) hi.1 (mem_map_inv _ _ _ rs hs fun _ h => h.1)
    exact ⟨⟨rfl, h.1⟩, h.2, hi.2.1, fun j hj => valid_of_sim _ _ h.1 h.2 hi.1 j (hi.2.2 j hj)⟩
  clone_sim fs hi := by
    have h := LawfulAux.clone_sim fs.region hi.1
    refine ⟨⟨LawfulIdxAux.clone_iter _, h.1⟩, h.2, LawfulIdxAux.clone_inv _ hi.2.1, ?_⟩
    intro j hj
    rw [show (RegionAux.clone fs).indices = IdxAux.clone fs.indices from rfl, LawfulIdxAux.clone_iter] at hj
    exact valid_of_sim _ _ h.1 h.2 hi.1 j (hi.2.2 j hj)
  cloneFrom_sim d s hd hs := by
    have h := LawfulAux.cloneFrom_sim d.region s.region hd.1 hs.1
    refine ⟨⟨LawfulIdxAux.cloneFrom_iter _ _, h.1⟩, h.2, LawfulIdxAux.cloneFrom_inv _ _ hs.2.1, ?_⟩
    intro j hj
    rw [show (RegionAux.cloneFrom d s).indices = IdxAux.cloneFrom d.indices s.indices from rfl,
      LawfulIdxAux.cloneFrom_iter] at hj
    exact valid_of_sim _ _ h.1 h.2 hs.1 j (hs.2.2 j hj)

/-- `merge_capacity` -/
instance [LawfulMerge R] : LawfulMerge (FlatStack R S) where
  merge_fresh rs hs := by
    have h := LawfulMerge.merge_fresh (rs.map (·.region)) (mem_map_inv _ _ _ rs hs fun _ h => h.1)
    refine ⟨⟨?_, h.1⟩, h.2, LawfulIdxAux.merge_inv _, ?_⟩
    · rw [show (RegionAux.mergeRegions rs).indices = IdxAux.mergeRegions (rs.map (·.indices)) from rfl,
        LawfulIdxAux.merge_iter]
      exact (LawfulIdxCont.iter_default (C := S)).symm
    · intro j hj
      rw [show (RegionAux.mergeRegions rs).indices = IdxAux.mergeRegions (rs.map (·.indices)) from rfl,
        LawfulIdxAux.merge_iter] at hj
      simp at hj

/-- `FlatStack::reserve` and `with_capacity` -/
theorem FlatStack.reserve_sim (fs : FlatStack R S) (n : Nat) (hi : Inv fs) :
    Sim (fs.reserve n) fs ∧ Inv (fs.reserve n) := by
  refine ⟨⟨LawfulIdxAux.reserve_iter _ _, LawfulRegion.sim_refl _ hi.1⟩, hi.1, LawfulIdxAux.reserve_inv _ _ hi.2.1, ?_⟩
  intro j hj
  rw [show (fs.reserve n).indices = IdxAux.reserve fs.indices n from rfl, LawfulIdxAux.reserve_iter] at hj
  exact hi.2.2 j hj

theorem FlatStack.withCapacity_sim (n : Nat) :
    Sim (FlatStack.withCapacity n : FlatStack R S) (default : FlatStack R S) ∧ Inv (FlatStack.withCapacity n : FlatStack R S) := by
  refine ⟨⟨?_, LawfulRegion.sim_refl _ LawfulRegion.inv_default⟩, LawfulRegion.inv_default, LawfulIdxAux.withCapacity_inv _, ?_⟩
  · rw [show (FlatStack.withCapacity n : FlatStack R S).indices = IdxAux.withCapacity n from rfl,
      LawfulIdxAux.withCapacity_iter]
    exact (LawfulIdxCont.iter_default (C := S)).symm
  · intro j hj
    rw [show (FlatStack.withCapacity n : FlatStack R S).indices = IdxAux.withCapacity n from rfl,
      LawfulIdxAux.withCapacity_iter] at hj
    simp at hj
end Stack

end FC

namespace FC
open Region

/-! ### consecutive index pairs -/
section Consec
variable {R V O : Type} [Region R V (Nat × Nat)] [DenseRegion R] [IdxCont O Nat] [RegionAux R] [IdxAux O]
  [LawfulRegion R] [LawfulDense R] [DenseSim R] [LawfulIdxCont O] [LawfulIdxAux O]

/-- transport the invariant along a `Sim`-equivalent inner region and an index container with the same contents -/
theorem consec_inv_transport (r : ConsecPairs R O) (inner' : R) (ind' : O) (hi : Inv r)
    (hs : Sim inner' r.inner) (hinv : Inv inner') (hit : IdxCont.iter ind' = IdxCont.iter r.indices)
    (hci : IdxCont.Inv ind') : Inv (⟨inner', ind', r.last⟩ : ConsecPairs R O) := by
  obtain ⟨h1, h2, h3, h4, h5⟩ := hi
  refine ⟨hinv, hci, ?_, ?_, ?_⟩
  · show r.last = DenseRegion.cursor inner'
    rw [DenseSim.cursor_sim inner' r.inner hs]; exact h3
  · show (IdxCont.iter ind').getLast? = some r.last
    rw [hit]; exact h4
  · intro k a b ha hb
    show Valid inner' (a, b)
    simp only [show (⟨inner', ind', r.last⟩ : ConsecPairs R O).indices = ind' from rfl, hit] at ha hb
    exact valid_of_sim _ _ hs hinv h1 _ (h5 k a b ha hb)

instance [LawfulAux R] : LawfulAux (ConsecPairs R O) where
  reserveItems_sim r vs hi := by
    have h := LawfulAux.reserveItems_sim r.inner vs hi.1
    exact ⟨⟨h.1, rfl, rfl⟩, consec_inv_transport r _ r.indices hi h.1 h.2 rfl hi.2.1⟩
  reserveRegions_sim r rs hi hs := by
    have h := LawfulAux.reserveRegions_sim r.inner (rs.map (·.inner)) hi.1 (mem_map_inv _ _ _ rs hs fun _ h => h.1)
    exact ⟨⟨h.1, rfl, rfl⟩, consec_inv_transport r _ r.indices hi h.1 h.2 rfl hi.2.1⟩
  clone_sim r hi := by
    have h := LawfulAux.clone_sim r.inner hi.1
    exact ⟨⟨h.1, LawfulIdxAux.clone_iter _, rfl⟩,
      consec_inv_transport r _ (IdxAux.clone r.indices) hi h.1 h.2 (LawfulIdxAux.clone_iter _) (LawfulIdxAux.clone_inv _ hi.2.1)⟩
  cloneFrom_sim d s _ hs := by
    have h := LawfulAux.cloneFrom_sim d.inner s.inner ‹Inv d›.1 hs.1
    exact ⟨⟨h.1, LawfulIdxAux.cloneFrom_iter _ _, rfl⟩,
      consec_inv_transport s _ (IdxAux.cloneFrom d.indices s.indices) hs h.1 h.2 (LawfulIdxAux.cloneFrom_iter _ _)
        (LawfulIdxAux.cloneFrom_inv _ _ hs.2.1)⟩

instance [LawfulMerge R] : LawfulMerge (ConsecPairs R O) where
  merge_fresh rs hs := by
    have h := LawfulMerge.merge_fresh (rs.map (·.inner)) (mem_map_inv _ _ _ rs hs fun _ h => h.1)
    have hd : Inv (Region.default : ConsecPairs R O) := LawfulRegion.inv_default
    exact ⟨⟨h.1, rfl, rfl⟩, consec_inv_transport (Region.default : ConsecPairs R O) _ _ hd h.1 h.2 rfl hd.2.1⟩
end Consec

end FC

namespace FC
open Region

/-! ### columns -/
section Columns
variable {R V I O : Type} [Region R V I] [IdxCont O Nat] [RegionAux R] [IdxAux O] [ElemSize I]
  [LawfulRegion R] [LawfulIdxCont O] [LawfulIdxAux O]

omit [RegionAux R] in
/-- column lists that agree position by position (up to `Sim`) are interchangeable -/
theorem cols_pointwise (cs' cs : List R) (hl : cs'.length = cs.length) (hi : ∀ c ∈ cs, Inv c)
    (hp : ∀ k (h : k < cs.length), Sim (cs'[k]'(hl ▸ h)) cs[k] ∧ Inv (cs'[k]'(hl ▸ h))) :
    ColsSim cs' cs ∧ (∀ c ∈ cs', Inv c) ∧ (∀ is : List I, RowValid cs is → RowValid cs' is) := by
  refine ⟨?_, ?_, ?_⟩
  · intro k
    rw [List.getD_eq_getElem?_getD, List.getD_eq_getElem?_getD]
    rcases Nat.lt_or_ge k cs.length with h | h
    · rw [List.getElem?_eq_getElem h, List.getElem?_eq_getElem (hl ▸ h)]
      exact (hp k h).1
    · rw [List.getElem?_eq_none h, List.getElem?_eq_none (hl ▸ h)]
      exact LawfulRegion.sim_refl _ LawfulRegion.inv_default
  · intro c hc
    obtain ⟨k, hk, rfl⟩ := List.getElem_of_mem hc
    exact (hp k (hl ▸ hk)).2
  · intro is
    induction is generalizing cs' cs with
    | nil => intro _; simp
    | cons i is ih =>
      intro h
      cases cs with
      | nil => exact absurd h (by simp [RowValid])
      | cons c cs =>
        cases cs' with
        | nil => simp at hl
        | cons c' cs' =>
          obtain ⟨h1, h2⟩ := h
          have h0 := hp 0 (by simp)
          refine ⟨valid_of_sim c' c h0.1 h0.2 (hi c (by simp)) i h1, ?_⟩
          apply ih cs' cs (by simpa using hl) (fun x hx => hi x (by simp [hx])) _ h2
          intro k hk
          have := hp (k + 1) (by simpa using hk)
          simpa using this

/-- the invariant of a columns region survives replacing both halves by `Sim`-equivalent ones -/
theorem columns_inv_transport (r : ColumnsRegion R I O) (ind' : ConsecPairs (OwnedRegion I) O) (cols' : List R)
    (hi : Inv r) (hs : Sim ind' r.indices) (hinv : Inv ind')
    (hc : ∀ c ∈ cols', Inv c) (hrv : ∀ is : List I, RowValid r.cols is → RowValid cols' is) :
    Inv (⟨ind', cols'⟩ : ColumnsRegion R I O) := by
  refine ⟨hinv, hc, ?_⟩
  intro k is hv hx
  obtain ⟨h1, h2⟩ := LawfulRegion.sim_index ind' r.indices k hs hinv hi.1
  have hv' : Valid r.indices k := h1.mp hv
  have hx' : index r.indices k = some is := by rw [← h2 hv]; exact hx
  exact hrv is (hi.2.2 k is hv' hx')

instance [LawfulAux R] : LawfulAux (ColumnsRegion R I O) where
  reserveItems_sim r _ hi := ⟨LawfulRegion.sim_refl r hi, hi⟩
  reserveRegions_sim r rs hi hs := by
    let n := (rs.map fun x => x.cols.length).foldl max 0
    let cs := padCols r.cols n
    let f := fun (k : Nat) (c : R) => RegionAux.reserveRegions c (rs.filterMap fun x => x.cols[k]?)
    let cs' := (List.range cs.length).zipWith f cs
    have hcs : ∀ c ∈ cs, Inv c := padCols_inv r.cols n hi.2.1
    have hl : cs'.length = cs.length := by simp [cs']
    have hsrc : ∀ k : Nat, ∀ x ∈ (rs.filterMap fun (x : ColumnsRegion R I O) => x.cols[k]?), Region.Inv x := by
      intro k x hx
      simp only [List.mem_filterMap] at hx
      obtain ⟨y, hy, hyk⟩ := hx
      exact (hs y hy).2.1 x (List.mem_of_getElem? hyk)
    have hp : ∀ k (h : k < cs.length), Sim (cs'[k]'(hl ▸ h)) cs[k] ∧ Inv (cs'[k]'(hl ▸ h)) := by
      intro k h
      have : cs'[k]'(hl ▸ h) = f k cs[k] := by simp [cs']
      rw [this]
      exact LawfulAux.reserveRegions_sim cs[k] _ (hcs _ (List.getElem_mem h)) (hsrc k)
    obtain ⟨g1, g2, g3⟩ := cols_pointwise (I := I) cs' cs hl hcs hp
    have hsim : ColsSim cs' r.cols := by
      intro k; have := g1 k; rwa [padCols_getD] at this
    refine ⟨⟨LawfulRegion.sim_refl _ hi.1, hsim⟩, ?_⟩
    exact columns_inv_transport r r.indices cs' hi (LawfulRegion.sim_refl _ hi.1) hi.1 g2
      (fun is h => g3 is (rowValid_append r.cols _ is h).1)
  clone_sim r hi := by
    have hind := LawfulAux.clone_sim r.indices hi.1
    let cs' := r.cols.map RegionAux.clone
    have hl : cs'.length = r.cols.length := by simp [cs']
    have hp : ∀ k (h : k < r.cols.length), Sim (cs'[k]'(hl ▸ h)) r.cols[k] ∧ Inv (cs'[k]'(hl ▸ h)) := by
      intro k h
      have : cs'[k]'(hl ▸ h) = RegionAux.clone r.cols[k] := by simp [cs']
      rw [this]
      exact LawfulAux.clone_sim _ (hi.2.1 _ (List.getElem_mem h))
    obtain ⟨g1, g2, g3⟩ := cols_pointwise (I := I) cs' r.cols hl hi.2.1 hp
    exact ⟨⟨hind.1, g1⟩, columns_inv_transport r _ cs' hi hind.1 hind.2 g2 g3⟩
  cloneFrom_sim d s hd hs := by
    have hind := LawfulAux.cloneFrom_sim d.indices s.indices hd.1 hs.1
    let cs' := colsCloneFrom d.cols s.cols
    have hl : cs'.length = s.cols.length := by
      simp only [cs', colsCloneFrom, List.length_append, List.length_zipWith, List.length_take, List.length_map,
        List.length_drop]
      omega
    have hp : ∀ k (h : k < s.cols.length), Sim (cs'[k]'(hl ▸ h)) s.cols[k] ∧ Inv (cs'[k]'(hl ▸ h)) := by
      intro k h
      rcases Nat.lt_or_ge k d.cols.length with hk | hk
      · have : cs'[k]'(hl ▸ h) = RegionAux.cloneFrom d.cols[k] s.cols[k] := by
          simp only [cs', colsCloneFrom]
          rw [List.getElem_append_left (by simp; omega)]
          simp
        rw [this]
        exact LawfulAux.cloneFrom_sim _ _ (hd.2.1 _ (List.getElem_mem hk)) (hs.2.1 _ (List.getElem_mem h))
      · have : cs'[k]'(hl ▸ h) = RegionAux.clone s.cols[k] := by
          simp only [cs', colsCloneFrom]
          rw [List.getElem_append_right (by simp; omega)]
          simp only [List.length_zipWith, List.length_take, List.getElem_map, List.getElem_drop]
          congr 2
          omega
        rw [this]
        exact LawfulAux.clone_sim _ (hs.2.1 _ (List.getElem_mem h))
    obtain ⟨g1, g2, g3⟩ := cols_pointwise (I := I) cs' s.cols hl hs.2.1 hp
    exact ⟨⟨hind.1, g1⟩, columns_inv_transport s _ cs' hs hind.1 hind.2 g2 g3⟩

instance [LawfulMerge R] : LawfulMerge (ColumnsRegion R I O) where
  merge_fresh rs hs := by
    have hind := LawfulMerge.merge_fresh (rs.map (·.indices)) (mem_map_inv _ _ _ rs hs fun _ h => h.1)
    let n := (rs.map fun x => x.cols.length).foldl max 0
    let cs' := (List.range n).map fun k => (RegionAux.mergeRegions (rs.filterMap fun x => x.cols[k]?) : R)
    have hsrc : ∀ k : Nat, ∀ x ∈ (rs.filterMap fun (x : ColumnsRegion R I O) => x.cols[k]?), Region.Inv x := by
      intro k x hx
      simp only [List.mem_filterMap] at hx
      obtain ⟨y, hy, hyk⟩ := hx
      exact (hs y hy).2.1 x (List.mem_of_getElem? hyk)
    have hc : ∀ c ∈ cs', Inv c := by
      intro c hc
      simp only [cs', List.mem_map, List.mem_range] at hc
      obtain ⟨k, _, rfl⟩ := hc
      exact (LawfulMerge.merge_fresh _ (hsrc k)).2
    have hsim : ColsSim cs' ([] : List R) := by
      intro k
      rw [List.getD_eq_getElem?_getD, List.getD_eq_getElem?_getD]
      rcases Nat.lt_or_ge k n with h | h
      · have : cs'[k]? = some (RegionAux.mergeRegions (rs.filterMap fun x => x.cols[k]?)) := by
          simp [cs', h]
        rw [this]
        exact (LawfulMerge.merge_fresh _ (hsrc k)).1
      · have : cs'[k]? = none := by simp [cs', h]
        rw [this]
        exact LawfulRegion.sim_refl _ LawfulRegion.inv_default
    refine ⟨⟨hind.1, hsim⟩, hind.2, hc, ?_⟩
    intro k is hv hx
    -- a merged offsets region holds no rows
    obtain ⟨h1, _⟩ := LawfulRegion.sim_index _ _ k hind.1 hind.2 (LawfulRegion.inv_default (R := ConsecPairs (OwnedRegion I) O))
    have : Valid (Region.default : ConsecPairs (OwnedRegion I) O) k := h1.mp hv
    simp [Region.Valid, Region.default, LawfulIdxCont.iter_push _ _ (LawfulIdxCont.inv_default (C := O)),
      LawfulIdxCont.iter_default] at this
end Columns

end FC
