import FlatModel.Proofs.HuffBits
/-! The byte store as a bit string, and the `Encoder` / `push_symbols` refinement (C06, item 2). -/
namespace FC.Huff

/-! `allBits`, `bitsOf`, `WFStore`, `codeOf`, `encodeBits`, `EncOK`: defined in Model/HuffSpec.lean -/

/-- `bytes` is the bit string `bs`, zero-padded to a whole number of bytes -/
def Packs (bytes : List Nat) (bs : List Bool) : Prop :=
  (∀ b ∈ bytes, b < 256) ∧ bytes.length = (bs.length + 7) / 8 ∧
    allBits bytes = bs ++ List.replicate (8 * bytes.length - bs.length) false

/-- code length of a symbol (0 if unknown) -/
def codeLen (c : Code) (s : Nat) : Nat := ((c.lookup s).map (·.1)).getD 0

@[simp] theorem allBits_nil : allBits [] = [] := rfl
@[simp] theorem allBits_cons (b : Nat) (bs : List Nat) : allBits (b :: bs) = bitsOfCode 8 b ++ allBits bs := rfl
theorem allBits_append (a b : List Nat) : allBits (a ++ b) = allBits a ++ allBits b := List.flatMap_append
@[simp] theorem length_allBits (bytes : List Nat) : (allBits bytes).length = 8 * bytes.length := by
  induction bytes with
  | nil => rfl
  | cons b bs ih => simp [ih]; omega

theorem length_bitsOf {bytes : List Nat} {n : Nat} (h : n ≤ 8 * bytes.length) : (bitsOf bytes n).length = n := by
  simp [bitsOf]; omega

theorem eq_dropLast_append_getLast! (l : List Nat) (h : l ≠ []) : l = l.dropLast ++ [l.getLast!] := by
  rcases List.eq_nil_or_concat l with h' | ⟨a, b, rfl⟩
  · exact absurd h' h
  · simp

theorem Packs.nil : Packs [] [] := ⟨by simp, rfl, rfl⟩

theorem Packs.single {b : Nat} (h : b < 256) : Packs [b] (bitsOfCode 8 b) := ⟨by simpa using h, by simp, by simp⟩

theorem Packs.append {a b : List Nat} {as bs : List Bool} (ha : Packs a as) (h8 : as.length % 8 = 0)
    (hb : Packs b bs) : Packs (a ++ b) (as ++ bs) := by
  obtain ⟨ha1, ha2, ha3⟩ := ha
  obtain ⟨hb1, hb2, hb3⟩ := hb
  have e1 : 8 * a.length - as.length = 0 := by omega
  rw [e1] at ha3
  simp only [List.replicate_zero, List.append_nil] at ha3
  refine ⟨?_, ?_, ?_⟩
  · intro x hx
    rcases List.mem_append.1 hx with h | h
    · exact ha1 x h
    · exact hb1 x h
  · simp only [List.length_append]; omega
  · rw [allBits_append, ha3, hb3, List.append_assoc]
    congr 2
    simp only [List.length_append]; congr 1; omega

theorem Packs.cons {b : Nat} {extra : List Nat} {bs : List Bool} (hb : b < 256) (h : Packs extra bs) :
    Packs (b :: extra) (bitsOfCode 8 b ++ bs) :=
  Packs.append (Packs.single hb) (by simp) h

/-- the final fractional byte of the encoder, left-aligned -/
theorem Packs.last {p b : Nat} (h0 : 0 < b) (h8 : b < 8) (hp : p < 2 ^ b) :
    Packs [p * 2 ^ (8 - b) % 256] (bitsOfCode b p) := by
  have hlt : p * 2 ^ (8 - b) < 256 := by
    have : p * 2 ^ (8 - b) < 2 ^ b * 2 ^ (8 - b) := Nat.mul_lt_mul_of_pos_right hp (Nat.two_pow_pos _)
    rw [← Nat.pow_add, show b + (8 - b) = 8 by omega] at this
    exact this
  rw [Nat.mod_eq_of_lt hlt]
  refine ⟨by simpa using hlt, by simp; omega, ?_⟩
  have := bitsOfCode_mul_add b (8 - b) p 0 (Nat.two_pow_pos _)
  rw [show b + (8 - b) = 8 by omega, Nat.add_zero, bitsOfCode_zero_code] at this
  simp [this]

theorem Packs.bitsOf {bytes : List Nat} {bs : List Bool} (h : Packs bytes bs) : bitsOf bytes bs.length = bs := by
  rw [FC.Huff.bitsOf, h.2.2, List.take_left' rfl]

theorem Packs.length_le {bytes : List Nat} {bs : List Bool} (h : Packs bytes bs) : bs.length ≤ 8 * bytes.length := by
  have := h.2.1; omega

/-- a packed bit string is a well-formed store -/
theorem Packs.wf {bytes : List Nat} {bs : List Bool} (h : Packs bytes bs) : WFStore bytes bs.length := by
  obtain ⟨h1, h2, h3⟩ := h
  refine ⟨h2, h1, fun hk => ?_⟩
  have hne : bytes ≠ [] := by intro h; subst h; simp at h2; omega
  have hsplit := eq_dropLast_append_getLast! bytes hne
  generalize bytes.getLast! = last at hsplit ⊢
  generalize bytes.dropLast = init at hsplit
  subst hsplit
  simp only [List.length_append, List.length_singleton] at h2 h3
  rw [allBits_append] at h3
  simp only [allBits_cons, allBits_nil, List.append_nil] at h3
  -- compare the last `8 - k` bits
  have hk8 : bs.length = 8 * init.length + bs.length % 8 := by omega
  have e := congrArg (List.drop bs.length) h3
  rw [List.drop_left' rfl] at e
  rw [List.drop_append, List.drop_of_length_le (by simp; omega), List.nil_append, length_allBits,
    show bs.length - 8 * init.length = bs.length % 8 by omega,
    bitsOfCode_drop' (by omega)] at e
  have e2 := congrArg ofBits e
  rw [ofBits_bitsOfCode, ofBits_replicate_false] at e2
  exact e2

/-- a well-formed store is the packing of its valid bits -/
theorem WFStore.packs {bytes : List Nat} {bits : Nat} (h : WFStore bytes bits) :
    Packs bytes (bitsOf bytes bits) ∧ (bitsOf bytes bits).length = bits := by
  obtain ⟨h1, h2, h3⟩ := h
  have hlen : (bitsOf bytes bits).length = bits := length_bitsOf (by omega)
  refine ⟨⟨h2, by rw [hlen]; exact h1, ?_⟩, hlen⟩
  rw [hlen]
  by_cases hk : bits % 8 = 0
  · have : 8 * bytes.length - bits = 0 := by omega
    rw [this, bitsOf, List.take_of_length_le (by simp; omega)]; simp
  · have hne : bytes ≠ [] := by intro h; subst h; simp at h1; omega
    have hz := h3 hk
    clear h3
    have hsplit := eq_dropLast_append_getLast! bytes hne
    generalize bytes.getLast! = last at hsplit hz
    generalize bytes.dropLast = init at hsplit
    subst hsplit
    simp only [List.length_append, List.length_singleton] at h1 ⊢
    have hk8 : bits = 8 * init.length + bits % 8 := by omega
    conv => lhs; rw [← List.take_append_drop bits (allBits (init ++ [last]))]
    rw [bitsOf]; congr 1
    rw [allBits_append]
    simp only [allBits_cons, allBits_nil, List.append_nil]
    rw [List.drop_append, List.drop_of_length_le (by simp; omega), List.nil_append, length_allBits,
      show bits - 8 * init.length = bits % 8 by omega, bitsOfCode_drop' (by omega),
      ← bitsOfCode_mod (k := 8 - bits % 8) _ (Nat.le_refl _), hz, bitsOfCode_zero_code]
    congr 1; omega

/-! ### the encoder -/

theorem flush_spec (fuel p b : Nat) (out : List Nat) (n : Nat) (hp : p < 2 ^ b) (hb : b < 8 * fuel) :
    ∃ extra, encodeLoop.flush fuel p b out n = (out ++ extra, n + b) ∧ Packs extra (bitsOfCode b p) := by
  induction fuel generalizing p b out n with
  | zero => omega
  | succ fuel ih =>
    unfold encodeLoop.flush
    by_cases h8 : b ≥ 8
    · simp only [h8, ↓reduceIte]
      have hbyte : p / 2 ^ (b - 8) < 256 := by
        apply Nat.div_lt_of_lt_mul
        rw [show (256 : Nat) = 2 ^ 8 by rfl, ← Nat.pow_add, show b - 8 + 8 = b by omega]; exact hp
      obtain ⟨extra, he, hpk⟩ := ih (p % 2 ^ (b - 8)) (b - 8) (out ++ [p / 2 ^ (b - 8) % 256]) (n + 8)
        (Nat.mod_lt _ (Nat.two_pow_pos _)) (by omega)
      refine ⟨p / 2 ^ (b - 8) % 256 :: extra, ?_, ?_⟩
      · rw [he]; simp; omega
      · rw [Nat.mod_eq_of_lt hbyte]
        have := Packs.cons hbyte hpk
        rwa [bitsOfCode_mod _ (Nat.le_refl _), ← bitsOfCode_add, show 8 + (b - 8) = b by omega] at this
    · simp only [h8, ↓reduceIte]
      by_cases h0 : b > 0
      · simp only [h0, ↓reduceIte]
        exact ⟨[p * 2 ^ (8 - b) % 256], rfl, Packs.last h0 (by omega) hp⟩
      · simp only [h0, ↓reduceIte]
        have : b = 0 := by omega
        subst this
        exact ⟨[], by simp, Packs.nil⟩

/-- the `u64` accumulator never truncates: fewer than 8 pending bits plus one code of at most 57 bits -/
theorem pending_fits {p b l code : Nat} (hp : p < 2 ^ b) (hb : b < 8) (hl : l ≤ 57) (hc : code < 2 ^ l) :
    (p * 2 ^ l + code) % 2 ^ 64 = p * 2 ^ l + code ∧ p * 2 ^ l + code < 2 ^ (b + l) := by
  have hlt : p * 2 ^ l + code < 2 ^ (b + l) := by
    rw [Nat.pow_add]
    have : (p + 1) * 2 ^ l ≤ 2 ^ b * 2 ^ l := Nat.mul_le_mul_right _ hp
    rw [Nat.add_mul] at this; omega
  exact ⟨Nat.mod_eq_of_lt (Nat.lt_of_lt_of_le hlt (Nat.pow_le_pow_right (by omega) (by omega))), hlt⟩

/-- the same, only for the symbols of one item -/
def EncOKOn (c : Code) (syms : List Nat) : Prop :=
  ∀ s ∈ syms, ∀ l code, c.lookup s = some (l, code) → l ≤ 57 ∧ code < 2 ^ l

theorem EncOK.on {c : Code} (h : EncOK c) (syms : List Nat) : EncOKOn c syms := fun s _ l code hl => h s l code hl

/-- the `Encoder` state machine refines "append the code words, then pack into bytes";
in particular `pending` never exceeds 64 bits, so the `u64` arithmetic never truncates -/
theorem encodeLoop_spec (c : Code) (syms : List Nat) (p b : Nat) (out : List Nat) (n : Nat)
    (ws : List Bool) (hc : EncOKOn c syms) (hw : encodeBits c syms = some ws) (hp : p < 2 ^ b) (hb : b ≤ 64) :
    ∃ extra, encodeLoop c syms p b out n = some (out ++ extra, n + (b + ws.length)) ∧
      Packs extra (bitsOfCode b p ++ ws) := by
  fun_induction encodeLoop c syms p b out n generalizing ws with
  | case1 p b out n =>
    simp only [encodeBits, Option.some.injEq] at hw
    subst hw
    obtain ⟨extra, he, hpk⟩ := flush_spec 16 p b out n hp (by omega)
    exact ⟨extra, by rw [he]; simp, by simpa using hpk⟩
  | case2 s rest p b out n h8 byte ih =>
    have hbyte : p / 2 ^ (b - 8) < 256 := by
      apply Nat.div_lt_of_lt_mul
      rw [show (256 : Nat) = 2 ^ 8 by rfl, ← Nat.pow_add, show b - 8 + 8 = b by omega]; exact hp
    obtain ⟨extra, he, hpk⟩ := ih ws hc hw (Nat.mod_lt _ (Nat.two_pow_pos _)) (by omega)
    refine ⟨byte :: extra, ?_, ?_⟩
    · rw [he]; simp; omega
    · have hb' : byte = p / 2 ^ (b - 8) := Nat.mod_eq_of_lt hbyte
      rw [hb']
      have := Packs.cons hbyte hpk
      rwa [bitsOfCode_mod _ (Nat.le_refl _), ← List.append_assoc, ← bitsOfCode_add,
        show 8 + (b - 8) = b by omega] at this
  | case3 s rest p b out n h8 hl =>
    simp [encodeBits, codeOf, hl] at hw
  | case4 s rest p b out n h8 l code hl ih =>
    simp only [encodeBits, codeOf, hl, Option.map_some] at hw
    cases hr : encodeBits c rest with
    | none => simp [hr] at hw
    | some wr =>
      simp only [hr, Option.some.injEq] at hw
      subst hw
      obtain ⟨hl57, hcode⟩ := hc s List.mem_cons_self l code hl
      have hlt : p * 2 ^ l + code < 2 ^ (b + l) := by
        rw [Nat.pow_add]
        have : (p + 1) * 2 ^ l ≤ 2 ^ b * 2 ^ l := Nat.mul_le_mul_right _ hp
        rw [Nat.add_mul] at this; omega
      have h64 : p * 2 ^ l + code < 2 ^ 64 :=
        Nat.lt_of_lt_of_le hlt (Nat.pow_le_pow_right (by omega) (by omega))
      rw [Nat.mod_eq_of_lt h64] at ih ⊢
      obtain ⟨extra, he, hpk⟩ := ih wr (fun s hs => hc s (List.mem_cons_of_mem _ hs)) hr hlt (by omega)
      refine ⟨extra, ?_, ?_⟩
      · rw [he]; simp; omega
      · rwa [bitsOfCode_mul_add _ _ _ _ hcode, List.append_assoc] at hpk

theorem Packs.whole {l : List Nat} (h : ∀ b ∈ l, b < 256) : Packs l (allBits l) :=
  ⟨h, by simp; omega, by simp⟩

theorem encodeBits_length (c : Code) (syms : List Nat) (ws : List Bool) (h : encodeBits c syms = some ws) :
    ws.length = (syms.map (codeLen c)).sum := by
  induction syms generalizing ws with
  | nil => simp [encodeBits] at h; subst h; rfl
  | cons s r ih =>
    simp only [encodeBits, codeOf] at h
    cases hl : c.lookup s with
    | none => simp [hl] at h
    | some p =>
      cases hr : encodeBits c r with
      | none => simp [hl, hr] at h
      | some wr =>
        simp only [hl, hr, Option.map_some, Option.some.injEq] at h
        subst h
        simp [codeLen, hl, ih wr hr]

theorem encodeBits_none_of_unknown (c : Code) (syms : List Nat) (s : Nat) (hs : s ∈ syms) (hl : c.lookup s = none) :
    encodeBits c syms = none := by
  induction syms with
  | nil => cases hs
  | cons a r ih =>
    rcases List.mem_cons.1 hs with rfl | h
    · simp [encodeBits, codeOf, hl]
    · simp only [encodeBits, ih h]
      cases codeOf c a <;> rfl

theorem encodeBits_isSome_iff (c : Code) (syms : List Nat) :
    (encodeBits c syms).isSome ↔ ∀ s ∈ syms, (c.lookup s).isSome := by
  induction syms with
  | nil => simp [encodeBits]
  | cons a r ih =>
    simp only [encodeBits, codeOf, List.mem_cons, forall_eq_or_imp, ← ih]
    cases c.lookup a <;> cases encodeBits c r <;> simp

/-- the encoder refuses exactly the symbol lists that contain a symbol without a code -/
theorem encodeLoop_none (c : Code) (syms : List Nat) (p b : Nat) (out : List Nat) (n : Nat)
    (hw : encodeBits c syms = none) : encodeLoop c syms p b out n = none := by
  fun_induction encodeLoop c syms p b out n with
  | case1 p b out n => simp [encodeBits] at hw
  | case2 s rest p b out n h8 byte ih => exact ih hw
  | case3 s rest p b out n h8 hl => rfl
  | case4 s rest p b out n h8 l code hl ih =>
    apply ih
    simp only [encodeBits, codeOf, hl, Option.map_some] at hw
    cases hr : encodeBits c rest with
    | none => rfl
    | some wr => simp [hr] at hw

/-- item 2, `push_appends`: `push_symbols` appends exactly the code words to the bit string of the store -/
theorem push_appends (c : Code) (bytes : List Nat) (bits : Nat) (syms : List Nat) (ws : List Bool)
    (hc : EncOKOn c syms) (hwf : WFStore bytes bits) (hw : encodeBits c syms = some ws) :
    ∃ bytes', pushSymbols c bytes bits syms = some (bytes', bits + ws.length, (bits, bits + ws.length)) ∧
      WFStore bytes' (bits + ws.length) ∧
      bitsOf bytes' (bits + ws.length) = bitsOf bytes bits ++ ws := by
  obtain ⟨hpk, hlen⟩ := hwf.packs
  obtain ⟨h1, h2, h3⟩ := hwf
  have key : ∀ bytes', Packs bytes' (bitsOf bytes bits ++ ws) →
      WFStore bytes' (bits + ws.length) ∧ bitsOf bytes' (bits + ws.length) = bitsOf bytes bits ++ ws := by
    intro bytes' h
    have hl : (bitsOf bytes bits ++ ws).length = bits + ws.length := by simp [hlen]
    have a := h.wf
    have b := h.bitsOf
    rw [hl] at a b
    exact ⟨a, b⟩
  by_cases hk : bits % 8 = 0
  · obtain ⟨extra, he, hpe⟩ := encodeLoop_spec c syms 0 0 [] 0 ws hc hw (by simp) (by omega)
    refine ⟨bytes ++ extra, ?_, key _ ?_⟩
    · simp only [pushSymbols, hk, ↓reduceIte, he]
      simp
    · simp only [bitsOfCode_zero, List.nil_append] at hpe
      exact Packs.append hpk (by rw [hlen]; exact hk) hpe
  · have hne : bytes ≠ [] := by intro h; subst h; simp at h1; omega
    have hsplit := eq_dropLast_append_getLast! bytes hne
    have hlast : bytes.getLast! < 256 := h2 _ (by rw [hsplit]; simp)
    have hpend : bytes.getLast! / 2 ^ (8 - bits % 8) < 2 ^ (bits % 8) := by
      apply Nat.div_lt_of_lt_mul
      rw [← Nat.pow_add, show 8 - bits % 8 + bits % 8 = 8 by omega]; exact hlast
    obtain ⟨extra, he, hpe⟩ := encodeLoop_spec c syms (bytes.getLast! / 2 ^ (8 - bits % 8)) (bits % 8) [] 0 ws hc hw
      hpend (by omega)
    refine ⟨bytes.dropLast ++ extra, ?_, key _ ?_⟩
    · simp only [pushSymbols, hk, ↓reduceIte, he]
      simp only [List.nil_append, Nat.zero_add, Option.some.injEq, Prod.mk.injEq, true_and]
      omega
    · have hbits : bitsOf bytes bits = allBits bytes.dropLast ++ bitsOfCode (bits % 8) (bytes.getLast! / 2 ^ (8 - bits % 8)) := by
        generalize bytes.getLast! = last at hsplit ⊢
        generalize bytes.dropLast = init at hsplit ⊢
        subst hsplit
        simp only [List.length_append, List.length_singleton] at h1
        rw [bitsOf, allBits_append, List.take_append, List.take_of_length_le (by simp; omega)]
        simp only [allBits_cons, allBits_nil, List.append_nil, length_allBits]
        rw [show bits - 8 * init.length = bits % 8 by omega, bitsOfCode_take' (by omega)]
      rw [hbits, List.append_assoc]
      refine Packs.append (Packs.whole fun b hb => h2 b ?_) (by simp) hpe
      rw [hsplit]; exact List.mem_append_left _ hb

/-- item 2, corollary `frame_bits`: the bits already stored are unchanged by a push
(the shared partial byte is re-emitted identically) -/
theorem frame_bits (c : Code) (bytes : List Nat) (bits : Nat) (syms : List Nat) (hc : EncOKOn c syms)
    (bytes' : List Nat) (bits' : Nat) (i : Nat × Nat) (hwf : WFStore bytes bits)
    (hp : pushSymbols c bytes bits syms = some (bytes', bits', i)) :
    bitsOf bytes' bits = bitsOf bytes bits ∧ bits ≤ bits' := by
  cases hw : encodeBits c syms with
  | none =>
    have : pushSymbols c bytes bits syms = none := by
      simp only [pushSymbols, encodeLoop_none c syms _ _ _ _ hw]
    rw [this] at hp; cases hp
  | some ws =>
    obtain ⟨b', he, hwf', hb⟩ := push_appends c bytes bits syms ws hc hwf hw
    rw [he] at hp
    simp only [Option.some.injEq, Prod.mk.injEq] at hp
    obtain ⟨rfl, rfl, rfl⟩ := hp
    refine ⟨?_, by omega⟩
    have := congrArg (List.take bits) hb
    rw [bitsOf, List.take_take, Nat.min_eq_left (by omega)] at this
    rw [bitsOf, this, List.take_left' (hwf.packs.2)]

/-- item 2, `push_refuses_unknown` -/
theorem push_refuses_unknown (c : Code) (bytes : List Nat) (bits : Nat) (syms : List Nat) (s : Nat)
    (hs : s ∈ syms) (hl : c.lookup s = none) : pushSymbols c bytes bits syms = none := by
  simp only [pushSymbols, encodeLoop_none c syms _ _ _ _ (encodeBits_none_of_unknown c syms s hs hl)]

/-- empty item: index `(bits, bits)`, store unchanged -/
theorem push_nil (c : Code) (bytes : List Nat) (bits : Nat) (hwf : WFStore bytes bits) :
    ∃ bytes', pushSymbols c bytes bits [] = some (bytes', bits, (bits, bits)) ∧
      WFStore bytes' bits ∧ bitsOf bytes' bits = bitsOf bytes bits := by
  have hc : EncOKOn ⟨[], #[]⟩ [] := fun s hs => by cases hs
  have : pushSymbols c bytes bits [] = pushSymbols ⟨[], #[]⟩ bytes bits [] := by
    simp [pushSymbols, encodeLoop]
  rw [this]
  simpa using push_appends ⟨[], #[]⟩ bytes bits [] [] hc hwf rfl

end FC.Huff
