import FlatModel.Model.Region
import FlatModel.Generated.SourceFacts
/-! `CodecRegion<DictionaryCodec>` (src/impls/codec.rs), after repairs D6/D7. -/
namespace FC.Codec

abbrev Bytes := List UInt8

/-- `Vec<u8>` ordering: lexicographic -/
def bytesLt : Bytes → Bytes → Bool
  | [], [] => false
  | [], _ :: _ => true
  | _ :: _, [] => false
  | a :: as, b :: bs => a < b || (a == b && bytesLt as bs)

/-- stable insertion sort (`slice::sort_by` is stable): `x` came before everything in the list, so
it goes in front of the first element that is not strictly smaller -/
def insertBy {α} (lt : α → α → Bool) (x : α) : List α → List α
  | [] => [x]
  | y :: ys => if lt y x then y :: insertBy lt x ys else x :: y :: ys
def sortBy {α} (lt : α → α → Bool) (l : List α) : List α := l.foldr (insertBy lt) []

/-- `consolidate`: sort by key, accumulate runs, drop zero counts (result ascending by key) -/
def consolidate (l : List (Bytes × Nat)) : List (Bytes × Nat) :=
  let sorted := sortBy (fun x y => bytesLt x.1 y.1) l
  let merged := sorted.foldl (fun acc (k, c) =>
    match acc.getLast? with
    | some (k', c') => if k' == k then acc.dropLast ++ [(k, c' + c)] else acc ++ [(k, c)]
    | none => [(k, c)]) []
  merged.filter (·.2 != 0)

/-- `MisraGries<Vec<u8>>` as built by `MisraGries::default()`: `Vec::with_capacity(MG.cap)` -/
structure MG where
  inner : List (Bytes × Nat)
deriving Inhabited

/-- the capacity of the summary's vector: the literal in `impl<T> Default for MisraGries<T>`, re-extracted from the
crate's source on every run (tools/gen_facts.py); 1024 in the crate as verified -/
def MG.cap : Nat := FC.Generated.mgCapacity
/-- `let k = self.inner.capacity() / 2` in `tidy`: how many entries a compaction keeps at most -/
abbrev MG.k : Nat := MG.cap / 2

def MG.done (m : MG) : List (Bytes × Nat) :=
  sortBy (fun x y => y.2 < x.2) (consolidate m.inner)

def MG.tidy (m : MG) : MG :=
  let l := sortBy (fun x y => y.2 < x.2) (consolidate m.inner)
  let k := MG.k
  if l.length > k then
    let sub := (l[k]!).2 - 1
    let l := (l.take k).map fun (b, w) => (b, w - sub)
    -- `while self.inner.last().map(|x| x.1) == Some(0) { pop }`
    ⟨(l.reverse.dropWhile (·.2 == 0)).reverse⟩
  else ⟨l⟩

def MG.update (m : MG) (b : Bytes) (c : Nat) : MG :=
  let m' : MG := ⟨m.inner ++ [(b, c)]⟩
  if m'.inner.length == MG.cap then m'.tidy else m'

/-- `BytesMap` -/
structure BytesMap where
  offsets : List Nat
  bytes : Bytes
deriving Inhabited

def BytesMap.default : BytesMap := ⟨[0], []⟩
def BytesMap.push (m : BytesMap) (b : Option Bytes) : BytesMap :=
  let bytes := match b with | some x => m.bytes ++ x | none => m.bytes
  ⟨m.offsets ++ [bytes.length], bytes⟩
def BytesMap.get (m : BytesMap) (i : Nat) : Option Bytes :=
  if i + 1 < m.offsets.length then
    let lo := m.offsets[i]!
    let hi := m.offsets[i+1]!
    if lo < hi then some ((m.bytes.drop lo).take (hi - lo)) else none
  else none

/-- `DictionaryCodec` -/
structure Dict where
  encode : List (Bytes × Nat)       -- BTreeMap<Vec<u8>, u8>, last insert wins
  decode : BytesMap
  mg : MG
  seen : List Nat                   -- first bytes observed (the 256-bit bitmap)
deriving Inhabited

def Dict.default : Dict := ⟨[], BytesMap.default, ⟨[]⟩, []⟩

def Dict.lookup (d : Dict) (b : Bytes) : Option Nat := (d.encode.find? (·.1 == b)).map (·.2)

/-- `decode` -/
def Dict.decodeBytes (d : Dict) (stored : Bytes) : Bytes :=
  match stored with
  | [] => stored
  | t :: _ => match d.decode.get t.toNat with | some e => e | none => stored

/-- `encode`: what is stored (`none` = refused by the D7 assertion), and the updated statistics -/
def Dict.encode' (d : Dict) (b : Bytes) : Option (Bytes × Dict) :=
  let stored : Option Bytes :=
    match d.lookup b with
    | some t => some [UInt8.ofNat t]
    | none =>
      match b with
      | [] => some b
      | t :: _ => if (d.decode.get t.toNat).isSome then none else some b
  match stored with
  | none => none
  | some s =>
    let d' := match b with
      | [] => d
      | t :: _ => { d with mg := d.mg.update b 1, seen := if d.seen.contains t.toNat then d.seen else t.toNat :: d.seen }
    some (s, d')

/-- `new_from(stats)` -/
def Dict.newFrom (srcs : List Dict) : Dict :=
  let mg := srcs.foldl (fun (m : MG) s => s.mg.done.foldl (fun m (b, c) => m.update b c) m) ⟨[]⟩
  let hh := mg.done
  let seen (t : Nat) : Bool := srcs.any fun s => s.seen.contains t
  let (enc, dec, _) := (List.range 256).foldl (fun (acc : List (Bytes × Nat) × BytesMap × List (Bytes × Nat)) tag =>
    let (enc, dec, rest) := acc
    if seen tag then (enc, dec.push none, rest)
    else match rest with
      | (b, _) :: rest' => ((b, tag) :: enc.filter (·.1 != b), dec.push (some b), rest')
      | [] => (enc, dec, rest)) ([], BytesMap.default, hh)
  ⟨enc, dec, ⟨[]⟩, []⟩

/-- `CodecRegion<DictionaryCodec, OwnedRegion<u8>>` -/
structure Region where
  inner : Bytes
  codec : Dict
deriving Inhabited

def Region.default : Region := ⟨[], Dict.default⟩
def Region.push (r : Region) (b : Bytes) : Option (Region × (Nat × Nat)) :=
  match r.codec.encode' b with
  | none => none
  | some (s, d') => some (⟨r.inner ++ s, d'⟩, (r.inner.length, r.inner.length + s.length))
def Region.index (r : Region) (i : Nat × Nat) : Option Bytes :=
  if i.1 ≤ i.2 ∧ i.2 ≤ r.inner.length then some (r.codec.decodeBytes ((r.inner.drop i.1).take (i.2 - i.1))) else none
def Region.merge (srcs : List Region) : Region := ⟨[], Dict.newFrom (srcs.map (·.codec))⟩
def Region.clear (_ : Region) : Region := Region.default

/-! Ghost state (no executable content): the representation invariant of the dictionary, proved in
`Proofs/Codec.lean` to hold for every dictionary reachable from `default` (C07). -/

/-- every dictionary hit decodes back (through a one-byte tag), and the statistics never hold the empty string -/
structure Dict.WF (d : Dict) : Prop where
  hit : ∀ s t, d.lookup s = some t → d.decode.get t = some s ∧ s ≠ [] ∧ t < 256
  stats : ∀ e ∈ d.mg.inner, e.1 ≠ []

end FC.Codec
