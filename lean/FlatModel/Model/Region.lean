import FlatModel.Model.Index
/-! The `Region` / `Push` traits (src/lib.rs:44-113) and the terminal / fan-out regions. -/
namespace FC

/-- `trait Region` + `Push<T>` for the canonical input form. `V` is the owned value, `I` the index.
`none` is a panic. The `Prop` fields are ghost state used by the laws. -/
class Region (R : Type) (V I : outParam Type) where
  default : R
  push : R → V → Option (R × I)
  index : R → I → Option V
  clear : R → R
  /-- representation invariant -/
  Inv : R → Prop
  /-- the index is in bounds for the current contents (every issued index is) -/
  Valid : R → I → Prop
  /-- values the write half accepts without panicking -/
  Accepts : R → V → Prop
  /-- observational equivalence: equal up to capacities and retained empty structure -/
  Sim : R → R → Prop
  /-- Rust `==` between a read item and a pushed value, lifted through the structure -/
  same : V → V → Prop

/-- regions indexed by `(usize, usize)` whose pushes return `(cursor, cursor')` -/
class DenseRegion (R : Type) {V : outParam Type} [Region R V (Nat × Nat)] where
  cursor : R → Nat

/-- `MirrorRegion<T>` (src/impls/mirror.rs) -/
structure MirrorRegion (T : Type) where
  unit : Unit := ()

instance (T : Type) : Region (MirrorRegion T) T T where
  default := {}
  push r v := some (r, v)
  index _ i := some i
  clear r := r
  Inv _ := True
  Valid _ _ := True
  Accepts _ _ := True
  Sim _ _ := True
  same a b := a = b

/-- `OwnedRegion<T>` (src/impls/slice_owned.rs) -/
structure OwnedRegion (T : Type) where
  slices : MVec T

instance (T : Type) : Region (OwnedRegion T) (List T) (Nat × Nat) where
  default := ⟨MVec.empty⟩
  push r v := some (⟨r.slices.extend v⟩, (r.slices.len, r.slices.len + v.length))
  index r i :=
    if i.1 ≤ i.2 ∧ i.2 ≤ r.slices.len then some ((r.slices.data.drop i.1).take (i.2 - i.1)) else none
  clear r := ⟨r.slices.clear⟩
  Inv _ := True
  Valid r i := i.1 ≤ i.2 ∧ i.2 ≤ r.slices.len
  Accepts _ _ := True
  Sim a b := a.slices.data = b.slices.data
  same a b := a = b

instance (T : Type) : DenseRegion (OwnedRegion T) where
  cursor r := r.slices.len

/-- `impl Region for Vec<T>` (src/impls/vec.rs) -/
structure VecRegion (T : Type) where
  v : MVec T

instance (T : Type) : Region (VecRegion T) T Nat where
  default := ⟨MVec.empty⟩
  push r x := some (⟨r.v.push x⟩, r.v.len)
  index r i := r.v.data[i]?
  clear r := ⟨r.v.clear⟩
  Inv _ := True
  Valid r i := i < r.v.len
  Accepts _ _ := True
  Sim a b := a.v.data = b.v.data
  same a b := a = b

/-- `OptionRegion<R>` (src/impls/option.rs) -/
structure OptionRegion (R : Type) where
  inner : R

instance {R V I : Type} [Region R V I] : Region (OptionRegion R) (Option V) (Option I) where
  default := ⟨Region.default⟩
  push r v :=
    match v with
    | none => some (r, none)
    | some x => (Region.push r.inner x).map fun (r', i) => (⟨r'⟩, some i)
  index r i :=
    match i with
    | none => some none
    | some j => (Region.index r.inner j).map some
  clear r := ⟨Region.clear r.inner⟩
  Inv r := Region.Inv r.inner
  Valid r i := match i with | none => True | some j => Region.Valid r.inner j
  Accepts r v := match v with | none => True | some x => Region.Accepts r.inner x
  Sim a b := Region.Sim a.inner b.inner
  same a b :=
    match a, b with
    | none, none => True
    | some x, some y => Region.same (R := R) x y
    | _, _ => False

/-- `ResultRegion<T, E>` (src/impls/result.rs) -/
structure ResultRegion (T E : Type) where
  oks : T
  errs : E

instance {T VT IT E VE IE : Type} [Region T VT IT] [Region E VE IE] :
    Region (ResultRegion T E) (Except VE VT) (Except IE IT) where
  default := ⟨Region.default, Region.default⟩
  push r v :=
    match v with
    | .ok x => (Region.push r.oks x).map fun (t', i) => (⟨t', r.errs⟩, .ok i)
    | .error x => (Region.push r.errs x).map fun (e', i) => (⟨r.oks, e'⟩, .error i)
  index r i :=
    match i with
    | .ok j => (Region.index r.oks j).map .ok
    | .error j => (Region.index r.errs j).map .error
  clear r := ⟨Region.clear r.oks, Region.clear r.errs⟩
  Inv r := Region.Inv r.oks ∧ Region.Inv r.errs
  Valid r i := match i with | .ok j => Region.Valid r.oks j | .error j => Region.Valid r.errs j
  Accepts r v := match v with | .ok x => Region.Accepts r.oks x | .error x => Region.Accepts r.errs x
  Sim a b := Region.Sim a.oks b.oks ∧ Region.Sim a.errs b.errs
  same a b :=
    match a, b with
    | .ok x, .ok y => Region.same (R := T) x y
    | .error x, .error y => Region.same (R := E) x y
    | _, _ => False

/-- tuple regions (src/impls/tuple.rs): the macro generates the same field-wise code for every
arity; arity n is `TupleCons A (TupleCons B … TupleNil)`. -/
structure TupleNil where
  unit : Unit := ()

instance : Region TupleNil Unit Unit where
  default := {}
  push r _ := some (r, ())
  index _ _ := some ()
  clear r := r
  Inv _ := True
  Valid _ _ := True
  Accepts _ _ := True
  Sim _ _ := True
  same _ _ := True

structure TupleCons (A B : Type) where
  head : A
  tail : B

instance {A VA IA B VB IB : Type} [Region A VA IA] [Region B VB IB] :
    Region (TupleCons A B) (VA × VB) (IA × IB) where
  default := ⟨Region.default, Region.default⟩
  push r v :=
    match Region.push r.head v.1 with
    | none => none
    | some (a', i) =>
      match Region.push r.tail v.2 with
      | none => none
      | some (b', j) => some (⟨a', b'⟩, (i, j))
  index r i :=
    match Region.index r.head i.1, Region.index r.tail i.2 with
    | some x, some y => some (x, y)
    | _, _ => none
  clear r := ⟨Region.clear r.head, Region.clear r.tail⟩
  Inv r := Region.Inv r.head ∧ Region.Inv r.tail
  Valid r i := Region.Valid r.head i.1 ∧ Region.Valid r.tail i.2
  Accepts r v := Region.Accepts r.head v.1 ∧ Region.Accepts r.tail v.2
  Sim a b := Region.Sim a.head b.head ∧ Region.Sim a.tail b.tail
  same a b := Region.same (R := A) a.1 b.1 ∧ Region.same (R := B) a.2 b.2

/-- `StringRegion<R>` (src/impls/string.rs): a byte region read as `&str`. The bytes are what is
stored; validity of what is pushed is the caller-side contract of the `Push` impls (C04). -/
structure StringRegion (R : Type) where
  inner : R

instance {R I : Type} [Region R (List UInt8) I] : Region (StringRegion R) (List UInt8) I where
  default := ⟨Region.default⟩
  push r v := (Region.push r.inner v).map fun (r', i) => (⟨r'⟩, i)
  index r i := Region.index r.inner i
  clear r := ⟨Region.clear r.inner⟩
  Inv r := Region.Inv r.inner
  Valid r i := Region.Valid r.inner i
  Accepts r v := Region.Accepts r.inner v
  Sim a b := Region.Sim a.inner b.inner
  same a b := Region.same (R := R) a b

instance {R : Type} [Region R (List UInt8) (Nat × Nat)] [DenseRegion R] : DenseRegion (StringRegion R) where
  cursor r := DenseRegion.cursor r.inner

end FC
