import FlatModel.Model.Basic
/-! Index containers: src/impls/index.rs -/
namespace FC

/-- trait `IndexContainer<T>: Storage<T>` (semantic part) -/
class IdxCont (C : Type) (T : outParam Type) where
  default : C
  push : C → T → C
  index : C → Nat → Option T      -- `none` = panic
  len : C → Nat
  isEmpty : C → Bool
  clear : C → C
  iter : C → List T
  /-- heap bytes in use, per `heap_size` callback -/
  usedBytes : C → List Nat
  /-- representation invariant (ghost) -/
  Inv : C → Prop

/-- `impl IndexContainer<T> for Vec<T>`; `sz` = size_of::<T>() -/
structure VecIdx (T : Type) (sz : Nat) where
  v : List T
deriving Repr

instance (T : Type) (sz : Nat) : IdxCont (VecIdx T sz) T where
  default := ⟨[]⟩
  push c x := ⟨c.v ++ [x]⟩
  index c i := c.v[i]?
  len c := c.v.length
  isEmpty c := c.v.isEmpty
  clear _ := ⟨[]⟩
  iter c := c.v
  usedBytes c := [c.v.length * sz]
  Inv _ := True

/-- `enum Stride` -/
inductive Stride
  | empty
  | zero
  | striding (stride count : Nat)
  | saturated (stride count reps : Nat)
deriving DecidableEq, Repr

namespace Stride

/-- `Stride::push` as it is in the tree: `*stride * *count` in machine arithmetic. -/
def pushLegacy (m : Mode) (s : Stride) (item : Nat) : Option (Stride × Bool) :=
  match s with
  | empty => if item = 0 then some (zero, true) else some (empty, false)
  | zero => some (striding item 2, true)
  | striding st c =>
      match umul m st c with
      | none => none
      | some p =>
        if item = p then some (striding st (c+1), true)
        else match umul m st (c - 1) with
          | none => none
          | some q => if item = q then some (saturated st c 1, true) else some (s, false)
  | saturated st c r =>
      match umul m st (c - 1) with
      | none => none
      | some q => if item = q then some (saturated st c (r+1), true) else some (s, false)

/-- `Stride::push` after the repair (`checked_mul`). Mode-independent. -/
def push (s : Stride) (item : Nat) : Stride × Bool :=
  match s with
  | empty => if item = 0 then (zero, true) else (empty, false)
  | zero => (striding item 2, true)
  | striding st c =>
      if checkedMul st c = some item then (striding st (c+1), true)
      else if item = st * (c - 1) then (saturated st c 1, true)
      else (s, false)
  | saturated st c r =>
      if item = st * (c - 1) then (saturated st c (r+1), true) else (s, false)

def len : Stride → Nat
  | empty => 0
  | zero => 1
  | striding _ c => c
  | saturated _ c r => c + r

def isEmpty : Stride → Bool
  | empty => true
  | _ => false

/-- `Stride::index`; `none` only for `Empty` (panic "Empty Stride") -/
def index (s : Stride) (i : Nat) : Option Nat :=
  match s with
  | empty => none
  | zero => some 0
  | striding st _ => some (st * i)
  | saturated st c _ => if i < c then some (st * i) else some (st * (c - 1))

def indexD (s : Stride) (i : Nat) : Nat := (s.index i).getD 0

/-- `StrideIter` -/
def iter (s : Stride) : List Nat := (List.range s.len).map s.indexD

/-- counts are at least 2 once striding, repetitions at least 1 once saturated -/
def Inv : Stride → Prop
  | empty => True
  | zero => True
  | striding _ c => 2 ≤ c
  | saturated _ c r => 2 ≤ c ∧ 1 ≤ r

end Stride

/-- `struct IndexList<S, L>` with `S = Vec<u32>`, `L = Vec<u64>` -/
structure IndexList where
  smol : List Nat
  chonk : List Nat
deriving Repr

namespace IndexList
def push (l : IndexList) (x : Nat) : IndexList :=
  if l.chonk.isEmpty then
    if x < U32 then { l with smol := l.smol ++ [x] } else { l with chonk := l.chonk ++ [x] }
  else { l with chonk := l.chonk ++ [x] }
def index (l : IndexList) (i : Nat) : Option Nat :=
  if i < l.smol.length then l.smol[i]? else l.chonk[i - l.smol.length]?
def len (l : IndexList) : Nat := l.smol.length + l.chonk.length
def isEmpty (l : IndexList) : Bool := l.smol.isEmpty && l.chonk.isEmpty
def iter (l : IndexList) : List Nat := l.smol ++ l.chonk
end IndexList

instance : IdxCont IndexList Nat where
  default := ⟨[], []⟩
  push := IndexList.push
  index := IndexList.index
  len := IndexList.len
  isEmpty := IndexList.isEmpty
  clear _ := ⟨[], []⟩
  iter := IndexList.iter
  usedBytes l := [l.smol.length * 4, l.chonk.length * 8]
  Inv _ := True

/-- `struct IndexOptimized` -/
structure IndexOptimized where
  strided : Stride
  spilled : IndexList
deriving Repr

namespace IndexOptimized
def push (o : IndexOptimized) (x : Nat) : IndexOptimized :=
  if o.spilled.isEmpty then
    let (s', ok) := o.strided.push x
    if ok then { o with strided := s' } else { o with spilled := o.spilled.push x }
  else { o with spilled := o.spilled.push x }
def index (o : IndexOptimized) (i : Nat) : Option Nat :=
  if i < o.strided.len then o.strided.index i else o.spilled.index (i - o.strided.len)
def len (o : IndexOptimized) : Nat := o.strided.len + o.spilled.len
def isEmpty (o : IndexOptimized) : Bool := o.strided.isEmpty && o.spilled.isEmpty
def iter (o : IndexOptimized) : List Nat := o.strided.iter ++ o.spilled.iter
end IndexOptimized

instance : IdxCont IndexOptimized Nat where
  default := ⟨.empty, ⟨[], []⟩⟩
  push := IndexOptimized.push
  index := IndexOptimized.index
  len := IndexOptimized.len
  isEmpty := IndexOptimized.isEmpty
  clear _ := ⟨.empty, ⟨[], []⟩⟩
  iter := IndexOptimized.iter
  usedBytes o := [o.spilled.smol.length * 4, o.spilled.chonk.length * 8]
  Inv o := o.strided.Inv

end FC
