import FlatModel.Model.Items
/-! Input forms whose Rust code path differs from the canonical `&[T]` path (C20):
`Push<ReadSlice>` for slice regions and `Push<PushIter<_>>` for columns regions. -/
namespace FC
open Region

section Slice
variable {R V I O : Type} [Region R V I] [IdxCont O I]

/-- the loop shared by `Push<ReadSliceInner>` (`for index in start..end { … self.slices.push(index) }`)
and the `Err(slice)` arm of `Push<ReadSlice>`: every element is *read* first (a failed read is a
panic), pushed into the inner region, and its index appended -/
def pushReads (inner : R) (slices : O) : List (Option V) → Option (R × O)
  | [] => some (inner, slices)
  | none :: _ => none
  | some v :: rest =>
    match push inner v with
    | none => none
    | some (inner', i) => pushReads inner' (IdxCont.push slices i) rest

/-- the element reads a `ReadSlice` performs when it is pushed -/
def ReadSlice.readList : ReadSlice R O V → List (Option V)
  | .backed r s e => (List.range (e - s)).map fun k => (IdxCont.index r.slices (s + k)).bind (index r.inner)
  | .borrowed vs => vs.map some

/-- `impl Push<ReadSlice<'a, C, O>> for SliceRegion<C, O>` -/
def SliceRegion.pushItem (d : SliceRegion R O) (x : ReadSlice R O V) : Option (SliceRegion R O × (Nat × Nat)) :=
  match pushReads d.inner d.slices x.readList with
  | none => none
  | some (inner', slices') =>
    some (⟨slices', inner'⟩, ((IdxCont.iter d.slices).length, (IdxCont.iter slices').length))
end Slice

section Columns
variable {R V I : Type} [Region R V I]

/-- `impl Push<PushIter<I>> for ColumnsRegion`: columns are created one at a time, as the iterator
reaches them (`if self.inner.len() <= index { self.inner.push(R::default()) }`) -/
def pushRowLazy (cols : List R) (k : Nat) : List V → Option (List R × List I)
  | [] => some (cols, [])
  | v :: vs =>
    let cols := if cols.length ≤ k then cols ++ [(Region.default : R)] else cols
    match cols[k]? with
    | none => none
    | some c =>
      match push c v with
      | none => none
      | some (c', i) =>
        match pushRowLazy (cols.set k c') (k + 1) vs with
        | none => none
        | some (cols', is) => some (cols', i :: is)

/-- `impl Push<PushIter<I>> for ColumnsRegion<R, O>` -/
def ColumnsRegion.pushIter {O : Type} [IdxCont O Nat] (r : ColumnsRegion R I O) (row : List V) :
    Option (ColumnsRegion R I O × Nat) :=
  match pushRowLazy r.cols 0 row with
  | none => none
  | some (cols', is) =>
    match push r.indices is with
    | none => none
    | some (ind', k) => some (⟨ind', cols'⟩, k)
end Columns

end FC
