import FlatModel.Model.Items
import FlatModel.Model.Coded
/-! Read items, part 2: the `IntoOwned` implementations of the *composite* read items
(`Option<T>`, `Result<T, E>`, tuples, slices of items) parametrised by the operations of their
element items, and the Huffman read item `Wrapped` (src/impls/huffman_container.rs, `mod wrapper`).

Every definition follows one Rust function arm by arm. `&mut Self::Owned` targets are modelled in
state-passing style: `clone_onto(self, other: &mut O)` is `cloneOnto : X → O → O`, the result being
the value of `*other` afterwards. `Result<T, E>` is `Except E T` (as in Model/Region.lean). -/
namespace FC

/-! ### base items: `implement_for!` in src/impls/mirror.rs (`()`, `bool`, `char`, integers, floats, …) -/
namespace BaseItem
variable {T : Type}
/-- `fn into_owned(self) -> Self::Owned { self }` -/
def intoOwned (x : T) : T := x
/-- `fn clone_onto(self, other: &mut Self::Owned) { *other = self; }` -/
def cloneOnto (x : T) (_other : T) : T := x
/-- `fn borrow_as(owned: &'a Self::Owned) -> Self { *owned }` -/
def borrowAs (owned : T) : T := owned
/-- `MirrorRegion::reborrow(item) { item }` -/
def reborrow (x : T) : T := x
end BaseItem

/-! ### `impl IntoOwned for Option<T>` (src/impls/option.rs:95) -/
namespace OptionItem
variable {X O : Type}

/-- `self.map(IntoOwned::into_owned)` -/
def intoOwned (intoOwnedT : X → O) : Option X → Option O
  | some item => some (intoOwnedT item)
  | none => none

/-- ```
match (self, other) {
    (Some(item), Some(target)) => T::clone_onto(item, target),
    (Some(item), target) => *target = Some(T::into_owned(item)),
    (None, target) => *target = None,
}
``` -/
def cloneOnto (intoOwnedT : X → O) (cloneOntoT : X → O → O) : Option X → Option O → Option O
  | some item, some target => some (cloneOntoT item target)
  | some item, _target => some (intoOwnedT item)
  | none, _target => none

/-- `owned.as_ref().map(T::borrow_as)` -/
def borrowAs (borrowAsT : O → X) : Option O → Option X
  | some o => some (borrowAsT o)
  | none => none

/-- `OptionRegion::reborrow`: `item.map(R::reborrow)` -/
def reborrow (reborrowT : X → X) : Option X → Option X
  | some item => some (reborrowT item)
  | none => none

end OptionItem

/-! ### `impl IntoOwned for Result<T, E>` (src/impls/result.rs:109); `Ok` = `.ok`, `Err` = `.error` -/
namespace ResultItem
variable {XT OT XE OE : Type}

/-- `self.map(T::into_owned).map_err(E::into_owned)` -/
def intoOwned (intoOwnedT : XT → OT) (intoOwnedE : XE → OE) : Except XE XT → Except OE OT
  | .ok item => .ok (intoOwnedT item)
  | .error item => .error (intoOwnedE item)

/-- ```
match (self, other) {
    (Ok(item), Ok(target)) => T::clone_onto(item, target),
    (Err(item), Err(target)) => E::clone_onto(item, target),
    (Ok(item), target) => *target = Ok(T::into_owned(item)),
    (Err(item), target) => *target = Err(E::into_owned(item)),
}
``` -/
def cloneOnto (intoOwnedT : XT → OT) (cloneOntoT : XT → OT → OT) (intoOwnedE : XE → OE)
    (cloneOntoE : XE → OE → OE) : Except XE XT → Except OE OT → Except OE OT
  | .ok item, .ok target => .ok (cloneOntoT item target)
  | .error item, .error target => .error (cloneOntoE item target)
  | .ok item, _target => .ok (intoOwnedT item)
  | .error item, _target => .error (intoOwnedE item)

/-- `owned.as_ref().map(T::borrow_as).map_err(E::borrow_as)` -/
def borrowAs (borrowAsT : OT → XT) (borrowAsE : OE → XE) : Except OE OT → Except XE XT
  | .ok o => .ok (borrowAsT o)
  | .error o => .error (borrowAsE o)

/-- `ResultRegion::reborrow`: `item.map(T::reborrow).map_err(E::reborrow)` -/
def reborrow (reborrowT : XT → XT) (reborrowE : XE → XE) : Except XE XT → Except XE XT
  | .ok item => .ok (reborrowT item)
  | .error item => .error (reborrowE item)

end ResultItem

/-! ### `impl IntoOwned for (A, B, …)` (src/impls/tuple.rs:127): field-wise. Pairs; arity `n` by nesting
to the right, as `TupleCons` in Model/Region.lean. -/
namespace TupleItem
variable {XA OA XB OB : Type}

/-- `let (A, B) = self; (A.into_owned(), B.into_owned())` -/
def intoOwned (intoOwnedA : XA → OA) (intoOwnedB : XB → OB) : XA × XB → OA × OB
  | (a, b) => (intoOwnedA a, intoOwnedB b)

/-- `let (A, B) = self; let (A_other, B_other) = other; A.clone_onto(A_other); B.clone_onto(B_other);` -/
def cloneOnto (cloneOntoA : XA → OA → OA) (cloneOntoB : XB → OB → OB) : XA × XB → OA × OB → OA × OB
  | (a, b), (aOther, bOther) => (cloneOntoA a aOther, cloneOntoB b bOther)

/-- `let (A, B) = owned; (A::borrow_as(A), B::borrow_as(B))` -/
def borrowAs (borrowAsA : OA → XA) (borrowAsB : OB → XB) : OA × OB → XA × XB
  | (a, b) => (borrowAsA a, borrowAsB b)

/-- `TupleRegion::reborrow`: field-wise -/
def reborrow (reborrowA : XA → XA) (reborrowB : XB → XB) : XA × XB → XA × XB
  | (a, b) => (reborrowA a, reborrowB b)

end TupleItem

/-! ### `impl IntoOwned for ReadSlice` / `ReadColumns` (src/impls/slice.rs:296, columns.rs:288) with element
items that are themselves `IntoOwned`. The item is represented by the list of element items its
iterator yields (`ReadSlice.iter` / `ReadColumns.iter`, Model/Items.lean). -/
namespace SliceItem
variable {X O : Type}

/-- `self.iter().map(IntoOwned::into_owned).collect()` -/
def intoOwned (intoOwnedT : X → O) (elems : List X) : List O := elems.map intoOwnedT

/-- ```
let r = std::cmp::min(self.len(), other.len());
for (item, target) in self.iter().zip(other.iter_mut()) { item.clone_onto(target); }
other.extend(self.iter().skip(r).map(IntoOwned::into_owned));
other.truncate(self.len());
``` -/
def cloneOnto (intoOwnedT : X → O) (cloneOntoT : X → O → O) (elems : List X) (other : List O) : List O :=
  let r := min elems.length other.length
  -- the loop overwrites `other[k]` for every `k` the zip reaches and leaves the rest of `other` alone
  let zipped := (List.zip elems other).map fun (p : X × O) => cloneOntoT p.1 p.2
  let other := zipped ++ other.drop zipped.length
  let other := other ++ (elems.drop r).map intoOwnedT
  other.take elems.length

/-- `Self(Err(owned.as_slice()))`; the borrowed form yields `IntoOwned::borrow_as(&slice[k])` -/
def borrowAs (borrowAsT : O → X) (owned : List O) : List X := owned.map borrowAsT

/-- `SliceRegion::reborrow(item) { item }` -/
def reborrow (elems : List X) : List X := elems

end SliceItem

/-! ### `Wrapped<'a, B>`: the read item of `HuffmanContainer<B>` (symbols are `Nat`) -/

/-- `struct Wrapped { inner: Result<Encoded<'a, B>, &'a [B]> }`, with
`Encoded { huffman, bytes, bit_range: (lo, hi) }` -/
inductive Wrapped where
  | encoded (c : Huff.Code) (bytes : List Nat) (lo hi : Nat)
  | raw (syms : List Nat)
deriving Inhabited

namespace Wrapped

/-- the symbols `decode()` yields, in both arms (`Ok(encoded.decode())` drained / `Err(symbols)`);
`none` = the decoder panicked. The Rust iterator is lazy; here the whole item is decoded at once. -/
def decode : Wrapped → Option (List Nat)
  | encoded c bytes lo hi => Huff.decodeRange c bytes lo hi
  | raw syms => some syms

/-- `Iterator::eq` on two symbol iterations: pull from both, `true` iff they run out together -/
def iterEqSyms : List Nat → List Nat → Bool
  | [], [] => true
  | [], _ :: _ => false
  | _ :: _, [] => false
  | a :: as, b :: bs => if a == b then iterEqSyms as bs else false

/-- `Iterator::partial_cmp` / `cmp` on two symbol iterations (`B: Ord`, so never `None`) -/
def iterCmpSyms : List Nat → List Nat → Ordering
  | [], [] => .eq
  | [], _ :: _ => .lt
  | _ :: _, [] => .gt
  | a :: as, b :: bs =>
    match compare a b with
    | .eq => iterCmpSyms as bs
    | o => o

/-- `<[B] as PartialEq>::eq`: lengths first, then element-wise -/
def sliceEq (xs ys : List Nat) : Bool :=
  if xs.length != ys.length then false else (List.zip xs ys).all fun (p : Nat × Nat) => p.1 == p.2

/-- `<[B] as PartialOrd>::partial_cmp` (`SlicePartialOrd`): compare the common prefix element-wise,
then the lengths -/
def sliceCmp (xs ys : List Nat) : Ordering :=
  ((List.zip xs ys).foldr (fun (p : Nat × Nat) rest => (compare p.1 p.2).then rest) .eq).then
    (compare xs.length ys.length)

/-- ```
match (self.decode(), other.decode()) {
    (Ok(decode1), Ok(decode2)) => decode1.eq(decode2),
    (Ok(decode1), Err(bytes2)) => decode1.eq(bytes2.iter()),
    (Err(bytes1), Ok(decode2)) => bytes1.iter().eq(decode2),
    (Err(bytes1), Err(bytes2)) => bytes1.eq(bytes2),
}
``` `none` = a decoder panicked -/
def eq : Wrapped → Wrapped → Option Bool
  | encoded c₁ b₁ lo₁ hi₁, encoded c₂ b₂ lo₂ hi₂ =>
    match Huff.decodeRange c₁ b₁ lo₁ hi₁, Huff.decodeRange c₂ b₂ lo₂ hi₂ with
    | some decode1, some decode2 => some (iterEqSyms decode1 decode2)
    | _, _ => none
  | encoded c₁ b₁ lo₁ hi₁, raw bytes2 =>
    match Huff.decodeRange c₁ b₁ lo₁ hi₁ with
    | some decode1 => some (iterEqSyms decode1 bytes2)
    | none => none
  | raw bytes1, encoded c₂ b₂ lo₂ hi₂ =>
    match Huff.decodeRange c₂ b₂ lo₂ hi₂ with
    | some decode2 => some (iterEqSyms bytes1 decode2)
    | none => none
  | raw bytes1, raw bytes2 => some (sliceEq bytes1 bytes2)

/-- `PartialOrd::partial_cmp`, the same four arms with `partial_cmp`; `Ord::cmp` is
`self.partial_cmp(other).unwrap()`, and `partial_cmp` never returns `None` for `B: Ord` -/
def cmp : Wrapped → Wrapped → Option Ordering
  | encoded c₁ b₁ lo₁ hi₁, encoded c₂ b₂ lo₂ hi₂ =>
    match Huff.decodeRange c₁ b₁ lo₁ hi₁, Huff.decodeRange c₂ b₂ lo₂ hi₂ with
    | some decode1, some decode2 => some (iterCmpSyms decode1 decode2)
    | _, _ => none
  | encoded c₁ b₁ lo₁ hi₁, raw bytes2 =>
    match Huff.decodeRange c₁ b₁ lo₁ hi₁ with
    | some decode1 => some (iterCmpSyms decode1 bytes2)
    | none => none
  | raw bytes1, encoded c₂ b₂ lo₂ hi₂ =>
    match Huff.decodeRange c₂ b₂ lo₂ hi₂ with
    | some decode2 => some (iterCmpSyms bytes1 decode2)
    | none => none
  | raw bytes1, raw bytes2 => some (sliceCmp bytes1 bytes2)

/-- `match self.decode() { Ok(iter) => iter.cloned().collect(), Err(slice) => slice.to_vec() }` -/
def intoOwned : Wrapped → Option (List Nat)
  | encoded c bytes lo hi => Huff.decodeRange c bytes lo hi
  | raw slice => some slice

/-- `Vec::clear` -/
def vecClear (_v : List Nat) : List Nat := []
/-- `Vec::extend` / `extend_from_slice` -/
def vecExtend (v xs : List Nat) : List Nat := v ++ xs

/-- ```
match self.decode() {
    Ok(iter) => { other.clear(); other.extend(iter.cloned()); }
    Err(slice) => { other.clear(); other.extend_from_slice(slice); }
}
``` -/
def cloneOnto : Wrapped → List Nat → Option (List Nat)
  | encoded c bytes lo hi, other =>
    let other := vecClear other
    match Huff.decodeRange c bytes lo hi with
    | some iter => some (vecExtend other iter)
    | none => none
  | raw slice, other =>
    let other := vecClear other
    some (vecExtend other slice)

/-- `Self { inner: Err(owned.as_slice()) }` -/
def borrowAs (owned : List Nat) : Wrapped := raw owned

/-- `HuffmanContainer::reborrow(item) { item }` -/
def reborrow (x : Wrapped) : Wrapped := x

end Wrapped

namespace Huff.Container

/-- `HuffmanContainer::index`, returning the read item rather than its owned value:
```
match &self.inner {
    Ok((huffman, bytes, _bits)) => Wrapped::encoded(Encoded::new(huffman, bytes, (lower, upper))),
    Err(raw) => Wrapped::decoded(&raw[lower..upper]),
}
``` `none` = the slice expression `raw[lower..upper]` panicked -/
def item? (h : Container) (i : Nat × Nat) : Option Wrapped :=
  match h.coded with
  | some (c, bytes, _) => some (.encoded c bytes i.1 i.2)
  | none => if i.1 ≤ i.2 ∧ i.2 ≤ h.raw.length then some (.raw ((h.raw.drop i.1).take (i.2 - i.1))) else none

/-- the item at a (valid) index, total -/
def item (h : Container) (i : Nat × Nat) : Wrapped :=
  match h.coded with
  | some (c, bytes, _) => .encoded c bytes i.1 i.2
  | none => .raw ((h.raw.drop i.1).take (i.2 - i.1))

end Huff.Container

end FC
