import FlatModel.Model.Ops
/-! Read items (`ReadSlice`, `ReadColumns`) in their two representations — region-backed and
borrowed from an owned `Vec` — with the accessors the Rust types have (C13, C14, C15). -/
namespace FC
open Region

/-- `ReadSlice<'a, R, O>(Result<ReadSliceInner, &[R::Owned]>)` -/
inductive ReadSlice (R O V : Type) where
  | backed (r : SliceRegion R O) (s e : Nat)
  | borrowed (vs : List V)

namespace ReadSlice
variable {R V I O : Type} [Region R V I] [IdxCont O I]

def len : ReadSlice R O V → Nat
  | backed _ s e => e - s
  | borrowed vs => vs.length

def isEmpty : ReadSlice R O V → Bool
  | backed _ s e => s == e
  | borrowed vs => vs.isEmpty

/-- `get`, after the repair of D2 (`index < self.end - self.start`); `none` = panic -/
def get : ReadSlice R O V → Nat → Option V
  | backed r s e, k =>
    if k < e - s then (IdxCont.index r.slices (s + k)).bind (index r.inner) else none
  | borrowed vs, k => vs[k]?

/-- `get` as it was in the tree (`index <= self.end - self.start`) -/
def getLegacy : ReadSlice R O V → Nat → Option V
  | backed r s e, k =>
    if k ≤ e - s then (IdxCont.index r.slices (s + k)).bind (index r.inner) else none
  | borrowed vs, k => vs[k]?

/-- iteration: `start..end` mapped through the index container and the inner region -/
def iter : ReadSlice R O V → Option (List V)
  | backed r s e => ((List.range (e - s)).mapM fun k => (IdxCont.index r.slices (s + k)).bind (index r.inner))
  | borrowed vs => some vs

/-- `into_owned`: `self.iter().map(IntoOwned::into_owned).collect()` -/
def intoOwned (x : ReadSlice R O V) : Option (List V) := x.iter

/-- `clone_onto`: element-wise onto the common prefix, extend by the rest, truncate -/
def cloneOnto (x : ReadSlice R O V) (t : List V) : Option (List V) :=
  match x.iter with
  | none => none
  | some items =>
    let r := min x.len t.length
    let zipped := (List.zip items t).map (·.1)
    let extended := zipped ++ t.drop zipped.length ++ items.drop r
    some (extended.take x.len)

end ReadSlice

/-- `ReadColumns<'a, R>(Result<ReadColumnsInner, &[R::Owned]>)` -/
inductive ReadColumns (R I V : Type) where
  | backed (cols : List R) (index : List I)
  | borrowed (vs : List V)

namespace ReadColumns
variable {R V I : Type} [Region R V I]

def len : ReadColumns R I V → Nat
  | backed _ ix => ix.length
  | borrowed vs => vs.length
def isEmpty : ReadColumns R I V → Bool
  | backed _ ix => ix.isEmpty
  | borrowed vs => vs.isEmpty
/-- `self.columns[offset].index(self.index[offset])` -/
def get : ReadColumns R I V → Nat → Option V
  | backed cols ix, k =>
    match cols[k]?, ix[k]? with
    | some c, some i => index c i
    | _, _ => none
  | borrowed vs, k => vs[k]?
/-- `index.iter().zip(columns)` -/
def iter : ReadColumns R I V → Option (List V)
  | backed cols ix => readRow cols ix
  | borrowed vs => some vs
def intoOwned (x : ReadColumns R I V) : Option (List V) := x.iter
def cloneOnto (x : ReadColumns R I V) (t : List V) : Option (List V) :=
  match x.iter with
  | none => none
  | some items =>
    let r := min x.len t.length
    let zipped := (List.zip items t).map (·.1)
    let extended := zipped ++ t.drop zipped.length ++ items.drop r
    some (extended.take x.len)
end ReadColumns

end FC
