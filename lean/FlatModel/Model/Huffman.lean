import FlatModel.Model.Region
/-! `HuffmanContainer<B>` (src/impls/huffman_container.rs), level L1: the code as it runs
(after repairs D3–D5). Symbols are `Nat`. -/
namespace FC.Huff

/-- `enum Node<T> { Leaf(T), Fork(usize, usize) }` with its derived `Ord` -/
inductive Node where
  | leaf (s : Nat)
  | fork (l r : Nat)
deriving Repr, DecidableEq, Inhabited

def Node.lt : Node → Node → Bool
  | .leaf a, .leaf b => a < b
  | .leaf _, .fork _ _ => true
  | .fork _ _, .leaf _ => false
  | .fork a b, .fork c d => a < c || (a == c && b < d)

/-- heap entries `(-count, node)`; `BinaryHeap::pop` returns the maximum -/
def entryLt (x y : Int × Node) : Bool := x.1 < y.1 || (x.1 == y.1 && x.2.lt y.2)

def popMax : List (Int × Node) → Option ((Int × Node) × List (Int × Node))
  | [] => none
  | x :: xs =>
    match popMax xs with
    | none => some (x, [])
    | some (m, rest) => if entryLt m x then some (x, m :: rest) else some (m, x :: rest)

/-- the `while heap.len() > 1` loop; `fuel` = number of symbols -/
def buildTree (fuel : Nat) (heap : List (Int × Node)) (tree : Array Node) : Array Node :=
  match fuel with
  | 0 => tree
  | fuel + 1 =>
    match popMax heap with
    | none => tree
    | some ((c1, n1), h1) =>
      match popMax h1 with
      | none => tree.push n1        -- last element: `tree.push(heap.pop().unwrap().1)`
      | some ((c2, n2), h2) =>
        let fork := Node.fork tree.size (tree.size + 1)
        buildTree fuel ((c1 + c2, fork) :: h2) ((tree.push n1).push n2)

/-- DFS with an explicit stack (`todo.pop()` takes the last pushed) -/
def levelsOf (tree : Array Node) (fuel : Nat) (todo : List (Nat × Nat)) (acc : List (Nat × Nat)) : List (Nat × Nat) :=
  match fuel with
  | 0 => acc
  | fuel + 1 =>
    match todo with
    | [] => acc
    | (ni, lvl) :: rest =>
      match tree[ni]! with
      | .leaf s => levelsOf tree fuel rest (acc ++ [(lvl, s)])
      | .fork l r => levelsOf tree fuel ((r, lvl + 1) :: (l, lvl + 1) :: rest) acc

/-- stable insertion sort by level (`levels.sort_by(|x, y| x.0.cmp(&y.0))`) -/
def insertByLevel (x : Nat × Nat) : List (Nat × Nat) → List (Nat × Nat)
  | [] => [x]
  | y :: ys => if x.1 < y.1 then x :: y :: ys else y :: insertByLevel x ys
def sortByLevel (l : List (Nat × Nat)) : List (Nat × Nat) := l.foldr insertByLevel []

/-- canonical code assignment: `(symbol, bits, code)` in level order -/
def assign : List (Nat × Nat) → (code prev : Nat) → List (Nat × Nat × Nat)
  | [], _, _ => []
  | (lvl, s) :: rest, code, prev =>
    let code := if prev ≠ lvl then code * 2 ^ (lvl - prev) else code
    (s, lvl, code) :: assign rest (code + 1) lvl

inductive Decode where
  | void
  | symbol (s : Nat) (bits : Nat)
  | further (tbl : Array Decode)
deriving Repr, Inhabited

def emptyMap : Array Decode := Array.replicate 256 .void

/-- `insert_decode(map, symbol, bits, code)`, `code` left-aligned in 64 bits -/
def insertDecode (fuel : Nat) (map : Array Decode) (s bits code : Nat) : Array Decode :=
  match fuel with
  | 0 => map
  | fuel + 1 =>
    let byte := code / 2 ^ 56 % 256
    if bits ≤ 8 then
      (List.range (2 ^ (8 - bits))).foldl (fun m off => m.set! (byte + off) (.symbol s bits)) map
    else
      let next := match map[byte]! with | .further t => t | _ => emptyMap
      map.set! byte (.further (insertDecode fuel next s (bits - 8) (code * 256 % 2 ^ 64)))

structure Code where
  encode : List (Nat × Nat × Nat)     -- symbol ↦ (bits, code), as association list
  decode : Array Decode
deriving Inhabited

/-- `Huffman::create_from(counts)`; `counts` ascending by symbol (BTreeMap order) -/
def createFrom (counts : List (Nat × Int)) : Code :=
  if counts.isEmpty then ⟨[], emptyMap⟩ else
  let heap := counts.map fun (s, c) => (-c, Node.leaf s)
  let tree := buildTree counts.length heap #[]
  let levels := sortByLevel (levelsOf tree (2 * counts.length + 2) [(tree.size - 1, 0)] [])
  let levels := match levels with | [(_, s)] => [(1, s)] | l => l        -- repair D4
  let enc := assign levels 0 0
  let dec := enc.foldl (fun m (s, bits, code) => insertDecode 9 m s bits (code * 2 ^ (64 - bits) % 2 ^ 64)) emptyMap
  let dec := match levels with | [(_, s)] => insertDecode 9 dec s 1 (2 ^ 63) | _ => dec   -- repair D4
  ⟨enc, dec⟩

def Code.lookup (c : Code) (s : Nat) : Option (Nat × Nat) := (c.encode.find? (·.1 == s)).map (·.2)

/-- `Encoder`: returns the emitted bytes and the total number of bits; `none` = unknown symbol -/
def encodeLoop (c : Code) : (syms : List Nat) → (pending bits : Nat) → (out : List Nat) → (nbits : Nat) →
    Option (List Nat × Nat)
  | [], pending, bits, out, nbits =>
    -- ship whole bytes, then the final fractional byte
    let rec flush (fuel pending bits : Nat) (out : List Nat) (nbits : Nat) : List Nat × Nat :=
      match fuel with
      | 0 => (out, nbits)
      | fuel + 1 =>
        if bits ≥ 8 then
          let byte := pending / 2 ^ (bits - 8) % 256
          flush fuel (pending % 2 ^ (bits - 8)) (bits - 8) (out ++ [byte]) (nbits + 8)
        else if bits > 0 then (out ++ [pending * 2 ^ (8 - bits) % 256], nbits + bits)
        else (out, nbits)
    some (flush 16 pending bits out nbits)
  | s :: rest, pending, bits, out, nbits =>
    if bits ≥ 8 then
      let byte := pending / 2 ^ (bits - 8) % 256
      encodeLoop c (s :: rest) (pending % 2 ^ (bits - 8)) (bits - 8) (out ++ [byte]) (nbits + 8)
    else
      match c.lookup s with
      | none => none
      | some (l, code) => encodeLoop c rest ((pending * 2 ^ l + code) % 2 ^ 64) (bits + l) out nbits
termination_by syms _ bits => (syms.length, bits)
decreasing_by
  all_goals simp_wf
  · right; omega
  · left; omega

/-- `push_symbols(huffman, bytes, bits, iter)` -/
def pushSymbols (c : Code) (bytes : List Nat) (bits : Nat) (syms : List Nat) : Option (List Nat × Nat × (Nat × Nat)) :=
  let start := bits
  let base := bits - bits % 8
  let (bytes', init) :=
    if start % 8 = 0 then (bytes, (0, 0))
    else (bytes.dropLast, (bytes.getLast! / 2 ^ (8 - start % 8), start % 8))
  match encodeLoop c syms init.1 init.2 [] 0 with
  | none => none
  | some (out, n) => some (bytes' ++ out, base + n, (start, base + n))

/-- `BitIterator`: chunks `(byte, bits)` of the bit range -/
def bitChunks (bytes : List Nat) (fuel lo hi : Nat) : List (Nat × Nat) :=
  match fuel with
  | 0 => []
  | fuel + 1 =>
    if lo < hi then
      let byte := bytes[lo / 8]!
      let bits := min (hi - lo) (8 - lo % 8)
      let b := byte / 2 ^ (8 - lo % 8 - bits) % 2 ^ bits
      (b, bits) :: bitChunks bytes fuel (lo + bits) hi
    else []

/-- `Decoder::next`, iterated: returns the decoded symbols; `none` = one of its panics -/
def decodeLoop (root : Array Decode) (fuel : Nat) (map : Array Decode) (chunks : List (Nat × Nat))
    (pending bits : Nat) (acc : List Nat) : Option (List Nat) :=
  match fuel with
  | 0 => none
  | fuel + 1 =>
    -- restock once
    let (chunks, pending, bits) :=
      if bits < 8 then
        match chunks with
        | (nb, nbits) :: rest => (rest, pending * 2 ^ nbits + nb, bits + nbits)
        | [] => (chunks, pending, bits)
      else (chunks, pending, bits)
    if bits < 8 then
      if bits = 0 then some acc        -- repair D5 (at the root: end of item)
      else
        match map[pending * 2 ^ (8 - bits) % 256]! with
        | .void => none
        | .further _ => none
        | .symbol s l =>
          if l ≤ bits then decodeLoop root fuel root chunks (pending % 2 ^ (bits - l)) (bits - l) (acc ++ [s])
          else none
    else
      match map[pending / 2 ^ (bits - 8) % 256]! with
      | .void => none
      | .symbol s l => decodeLoop root fuel root chunks (pending % 2 ^ (bits - l)) (bits - l) (acc ++ [s])
      | .further t => decodeLoop root fuel t chunks (pending % 2 ^ (bits - 8)) (bits - 8) acc

def decodeRange (c : Code) (bytes : List Nat) (lo hi : Nat) : Option (List Nat) :=
  -- `self.bytes[self.bit_range.0 / 8]` beyond the store is a panic (the decoder consumes every chunk or
  -- panics earlier), so `bitChunks`' `bytes[_]!` is only ever evaluated in bounds
  if lo < hi ∧ 8 * bytes.length < hi then none else
  match bitChunks bytes (hi - lo + 2) lo hi with
  | [] => decodeLoop c.decode (hi - lo + 2) c.decode [] 0 0 []
  | (b, n) :: rest => decodeLoop c.decode (2 * (hi - lo) + 4) c.decode rest b n []

/-- the container: raw symbols, or code + bytes + valid bits; plus statistics -/
structure Container where
  coded : Option (Code × List Nat × Nat)
  raw : List Nat
  stats : List (Nat × Int)     -- ascending by symbol
deriving Inhabited

def bump (stats : List (Nat × Int)) (s : Nat) : List (Nat × Int) :=
  match stats with
  | [] => [(s, 1)]
  | (t, c) :: rest => if s < t then (s, 1) :: (t, c) :: rest else if s = t then (t, c + 1) :: rest else (t, c) :: bump rest s

def Container.default : Container := ⟨none, [], []⟩

def Container.push (h : Container) (item : List Nat) : Option (Container × (Nat × Nat)) :=
  let stats := item.foldl bump h.stats
  match h.coded with
  | none => some ({ h with raw := h.raw ++ item, stats := stats }, (h.raw.length, h.raw.length + item.length))
  | some (c, bytes, bits) =>
    match pushSymbols c bytes bits item with
    | none => none
    | some (bytes', bits', idx) => some ({ h with coded := some (c, bytes', bits'), stats := stats }, idx)

def Container.index (h : Container) (i : Nat × Nat) : Option (List Nat) :=
  match h.coded with
  | none => if i.1 ≤ i.2 ∧ i.2 ≤ h.raw.length then some ((h.raw.drop i.1).take (i.2 - i.1)) else none
  | some (c, bytes, _) => decodeRange c bytes i.1 i.2

def mergeStats (a b : List (Nat × Int)) : List (Nat × Int) := b.foldl (fun acc (s, c) =>
  let rec add (l : List (Nat × Int)) : List (Nat × Int) :=
    match l with
    | [] => [(s, c)]
    | (t, d) :: rest => if s < t then (s, c) :: (t, d) :: rest else if s = t then (t, d + c) :: rest else (t, d) :: add rest
  add acc) a

def Container.merge (srcs : List Container) : Container :=
  let counts := srcs.foldl (fun acc h => mergeStats acc h.stats) []
  ⟨some (createFrom counts, [], 0), [], []⟩

def Container.clear (_h : Container) : Container := ⟨none, [], []⟩

end FC.Huff
