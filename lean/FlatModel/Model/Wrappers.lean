import FlatModel.Model.Region
/-! Wrapper regions: CollapseSequence, ConsecutiveIndexPairs (src/impls/deduplicate.rs),
SliceRegion (src/impls/slice.rs). -/
namespace FC
open Region

/-- Rust `item == read_item` (`T: PartialEq<R::ReadItem<'_>>`), first argument the pushed item -/
class HasEqv (V : Type) where
  eqv : V → V → Bool

instance : HasEqv F64 := ⟨F64.eq⟩
/-- Rust `==` for payloads with structural equality (the base types: integers, `()`, `char`) -/
instance (priority := low) eqvOfDecEq {V : Type} [DecidableEq V] : HasEqv V := ⟨fun a b => decide (a = b)⟩

/-- `[T]: PartialEq`: same length and element-wise `==` (IEEE on floats: a slice containing a NaN is not `==` itself) -/
def listEqv {α : Type} (e : α → α → Bool) : List α → List α → Bool
  | [], [] => true
  | a :: as, b :: bs => e a b && listEqv e as bs
  | _, _ => false
/-! the derived `PartialEq` of `Vec`/slices, `Option`, `Result` and tuples is structural -/
instance {α : Type} [HasEqv α] : HasEqv (List α) := ⟨listEqv HasEqv.eqv⟩
instance {α : Type} [HasEqv α] : HasEqv (Option α) :=
  ⟨fun a b => match a, b with | none, none => true | some x, some y => HasEqv.eqv x y | _, _ => false⟩
instance {ε α : Type} [HasEqv ε] [HasEqv α] : HasEqv (Except ε α) :=
  ⟨fun a b => match a, b with | .ok x, .ok y => HasEqv.eqv x y | .error x, .error y => HasEqv.eqv x y | _, _ => false⟩
instance {α β : Type} [HasEqv α] [HasEqv β] : HasEqv (α × β) := ⟨fun a b => HasEqv.eqv a.1 b.1 && HasEqv.eqv a.2 b.2⟩

/-- `==` that is equality (everything without floats) -/
class LawfulEqv (V : Type) [HasEqv V] : Prop where
  eqv_iff : ∀ a b : V, HasEqv.eqv a b = true ↔ a = b
instance (priority := low) {V : Type} [DecidableEq V] : @LawfulEqv V eqvOfDecEq := ⟨fun _ _ => decide_eq_true_iff⟩
theorem listEqv_iff {α : Type} (e : α → α → Bool) (h : ∀ a b, e a b = true ↔ a = b) :
    ∀ l m : List α, listEqv e l m = true ↔ l = m
  | [], [] => by simp [listEqv]
  | [], _ :: _ => by simp [listEqv]
  | _ :: _, [] => by simp [listEqv]
  | a :: as, b :: bs => by simp [listEqv, h, listEqv_iff e h as bs]
instance {α : Type} [HasEqv α] [LawfulEqv α] : LawfulEqv (List α) := ⟨listEqv_iff _ LawfulEqv.eqv_iff⟩
instance {α : Type} [HasEqv α] [LawfulEqv α] : LawfulEqv (Option α) :=
  ⟨fun a b => by cases a <;> cases b <;> simp [HasEqv.eqv, LawfulEqv.eqv_iff]⟩
instance {ε α : Type} [HasEqv ε] [HasEqv α] [LawfulEqv ε] [LawfulEqv α] : LawfulEqv (Except ε α) :=
  ⟨fun a b => by cases a <;> cases b <;> simp [HasEqv.eqv, LawfulEqv.eqv_iff]⟩
instance {α β : Type} [HasEqv α] [HasEqv β] [LawfulEqv α] [LawfulEqv β] : LawfulEqv (α × β) :=
  ⟨fun a b => by cases a; cases b; simp [HasEqv.eqv, LawfulEqv.eqv_iff]⟩

/-- element-wise lifting of a relation to lists (core has no `List.Forall₂`) -/
def listRel {α : Type} (s : α → α → Prop) : List α → List α → Prop
  | [], [] => True
  | a :: as, b :: bs => s a b ∧ listRel s as bs
  | _, _ => False

/-- `CollapseSequence<R>` -/
structure CollapseSequence (R I : Type) where
  inner : R
  last : Option I

instance {R V I : Type} [Region R V I] [HasEqv V] : Region (CollapseSequence R I) V I where
  default := ⟨default, none⟩
  push r v :=
    match r.last with
    | some li =>
      match index r.inner li with
      | none => none
      | some u =>
        if HasEqv.eqv v u then some (r, li)
        else match push r.inner v with
          | none => none
          | some (inner', i) => some (⟨inner', some i⟩, i)
    | none =>
      match push r.inner v with
      | none => none
      | some (inner', i) => some (⟨inner', some i⟩, i)
  index r i := index r.inner i
  clear r := ⟨clear r.inner, none⟩
  Inv r := Inv r.inner ∧ ∀ li, r.last = some li → Valid r.inner li
  Valid r i := Valid r.inner i
  -- the value is accepted if it collapses into the last item or the inner region accepts it
  Accepts r v :=
    (∃ li u, r.last = some li ∧ index r.inner li = some u ∧ HasEqv.eqv v u = true) ∨ Accepts r.inner v
  Sim a b := Sim a.inner b.inner ∧ a.last = b.last
  same u v := same (R := R) u v ∨ HasEqv.eqv v u = true

/-- `SliceRegion<R, O>` -/
structure SliceRegion (R O : Type) where
  slices : O
  inner : R

section Slice
variable {R V I O : Type} [Region R V I] [IdxCont O I]

/-- `self.slices.extend(item.iter().map(|t| self.inner.push(t)))` -/
def pushAll (inner : R) (slices : O) : List V → Option (R × O)
  | [] => some (inner, slices)
  | v :: vs =>
    match push inner v with
    | none => none
    | some (inner', i) => pushAll inner' (IdxCont.push slices i) vs

/-- reading every element of a slice item -/
def readAll (inner : R) : List I → Option (List V)
  | [] => some []
  | i :: is =>
    match index inner i, readAll inner is with
    | some v, some vs => some (v :: vs)
    | _, _ => none

/-- all elements are accepted one after the other -/
def AcceptsAll (inner : R) : List V → Prop
  | [] => True
  | v :: vs => Accepts inner v ∧ ∀ inner' i, push inner v = some (inner', i) → AcceptsAll inner' vs

instance : Region (SliceRegion R O) (List V) (Nat × Nat) where
  default := ⟨IdxCont.default, default⟩
  push r v :=
    match pushAll r.inner r.slices v with
    | none => none
    | some (inner', slices') =>
      some (⟨slices', inner'⟩, ((IdxCont.iter r.slices).length, (IdxCont.iter slices').length))
  index r i :=
    let l := IdxCont.iter r.slices
    if i.1 ≤ i.2 ∧ i.2 ≤ l.length then readAll r.inner ((l.drop i.1).take (i.2 - i.1)) else none
  clear r := ⟨IdxCont.clear r.slices, clear r.inner⟩
  Inv r := Inv r.inner ∧ IdxCont.Inv r.slices ∧ ∀ j ∈ IdxCont.iter r.slices, Valid r.inner j
  Valid r i := i.1 ≤ i.2 ∧ i.2 ≤ (IdxCont.iter r.slices).length
  Accepts r v := AcceptsAll r.inner v
  Sim a b := IdxCont.iter a.slices = IdxCont.iter b.slices ∧ Sim a.inner b.inner
  same u v := listRel (same (R := R)) u v

instance : DenseRegion (SliceRegion R O) where
  cursor r := (IdxCont.iter r.slices).length

end Slice

/-- `ConsecutiveIndexPairs<R, O>` -/
structure ConsecPairs (R O : Type) where
  inner : R
  indices : O
  last : Nat

instance {R V O : Type} [Region R V (Nat × Nat)] [DenseRegion R] [IdxCont O Nat] :
    Region (ConsecPairs R O) V Nat where
  default := ⟨default, IdxCont.push IdxCont.default 0, 0⟩
  push r v :=
    match push r.inner v with
    | none => none
    | some (inner', (a, b)) =>
      -- `debug_assert_eq!(index.0, self.last_index)`: modelled as a panic; the laws show it never fires
      if a = r.last then
        let ind' := IdxCont.push r.indices b
        some (⟨inner', ind', b⟩, (IdxCont.iter ind').length - 2)
      else none
  index r k :=
    match (IdxCont.iter r.indices)[k]?, (IdxCont.iter r.indices)[k+1]? with
    | some a, some b => index r.inner (a, b)
    | _, _ => none
  clear r := ⟨clear r.inner, IdxCont.push (IdxCont.clear r.indices) 0, 0⟩
  Inv r := Inv r.inner ∧ IdxCont.Inv r.indices ∧
      r.last = DenseRegion.cursor r.inner ∧ (IdxCont.iter r.indices).getLast? = some r.last ∧
      (∀ k a b, (IdxCont.iter r.indices)[k]? = some a → (IdxCont.iter r.indices)[k+1]? = some b →
        Valid r.inner (a, b))
  Valid r k := k + 1 < (IdxCont.iter r.indices).length
  Accepts r v := Accepts r.inner v
  Sim x y := Sim x.inner y.inner ∧ IdxCont.iter x.indices = IdxCont.iter y.indices ∧ x.last = y.last
  same u v := same (R := R) u v

end FC
