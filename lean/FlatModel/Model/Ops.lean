import FlatModel.Model.Columns
import FlatModel.Model.FlatStack
/-! Capacity bookkeeping and the non-`push` half of the `Region` / `Storage` traits:
`reserve_items`, `reserve_regions`, `merge_regions`, `clone`, `clone_from`, `heap_size`
(C09, C10, C17, C18). -/
namespace FC
open Region

/-! ### `MVec` extras (std `Vec`) -/
namespace MVec
variable {α : Type}
/-- `Vec::clone`: exact allocation -/
def clone (v : MVec α) : MVec α := ⟨v.data, v.data.length⟩
/-- `Vec::clone_from`: reuses the destination's allocation when it is large enough -/
def cloneFrom (dst src : MVec α) : MVec α :=
  if src.data.length ≤ dst.cap then ⟨src.data, dst.cap⟩ else ⟨src.data, grow dst.cap src.data.length⟩
def heap (v : MVec α) (sz : Nat) : Nat × Nat := (v.data.length * sz, v.cap * sz)
@[simp] theorem clone_data (v : MVec α) : v.clone.data = v.data := rfl
@[simp] theorem cloneFrom_data (d s : MVec α) : (d.cloneFrom s).data = s.data := by
  unfold cloneFrom; split <;> rfl
end MVec

/-- `size_of::<T>()` of element types stored in vectors -/
class ElemSize (T : Type) where
  bytes : Nat
instance : ElemSize UInt8 := ⟨1⟩
instance : ElemSize Nat := ⟨8⟩
instance : ElemSize F64 := ⟨8⟩
instance : ElemSize Unit := ⟨0⟩
instance {A B} [ElemSize A] [ElemSize B] : ElemSize (A × B) := ⟨ElemSize.bytes A + ElemSize.bytes B⟩
/-- `String` -/
instance : ElemSize (List UInt8) := ⟨24⟩

/-! ### Index containers with capacities

The semantic containers of `Model/Index.lean` are lists. `Capd C` pairs one with the capacities
of the vectors it is made of; every semantic operation is the one of `C`, capacities follow `Vec`'s
growth policy. -/

/-- which vectors a container consists of -/
class HasStores (C : Type) where
  /-- lengths of the underlying vectors -/
  lens : C → List Nat
  /-- element sizes of the underlying vectors -/
  sizes : List Nat
  /-- which vectors `reserve(additional)` reserves in -/
  reserveMask : C → List Bool
  /-- which vectors `with_capacity(n)` sizes -/
  withCapMask : List Bool
  /-- `size_of::<C>()` -/
  selfSize : Nat

instance (T : Type) (sz : Nat) : HasStores (VecIdx T sz) where
  lens c := [c.v.length]
  sizes := [sz]
  reserveMask _ := [true]
  withCapMask := [true]
  selfSize := 24

instance : HasStores IndexList where
  lens l := [l.smol.length, l.chonk.length]
  sizes := [4, 8]
  reserveMask _ := [true, false]       -- `self.smol.reserve(additional)`
  withCapMask := [true, false]
  selfSize := 48

instance : HasStores IndexOptimized where
  lens o := [o.spilled.smol.length, o.spilled.chonk.length]
  sizes := [4, 8]
  reserveMask o := [!o.spilled.isEmpty, false]   -- `if !self.spilled.is_empty() { self.spilled.reserve(..) }`
  withCapMask := [false, false]                  -- `Self::default()`
  selfSize := 80

structure Capd (C : Type) where
  a : C
  caps : List Nat

namespace Capd
variable {C T : Type} [IdxCont C T] [HasStores C]

/-- grow each vector that no longer fits -/
def fit (caps lens : List Nat) : List Nat :=
  List.zipWith (fun cap len => if len ≤ cap then cap else grow cap len) caps lens

def zeros : List Nat := (HasStores.sizes C).map fun _ => 0

def reserve (c : Capd C) (additional : Nat) : Capd C :=
  ⟨c.a, List.zipWith (fun (p : Nat × Nat) (m : Bool) =>
      if m then (if p.2 + additional ≤ p.1 then p.1 else grow p.1 (p.2 + additional)) else p.1)
    (List.zip c.caps (HasStores.lens c.a)) (HasStores.reserveMask c.a)⟩
def withCapacity (n : Nat) : Capd C :=
  ⟨IdxCont.default, (HasStores.withCapMask C).map fun m => if m then n else 0⟩
/-- `Storage::merge_regions`: `with_capacity(sum of lens)` -/
def mergeRegions (rs : List (Capd C)) : Capd C :=
  withCapacity ((rs.map fun r => IdxCont.len r.a).sum)
def reserveRegions (c : Capd C) (rs : List (Capd C)) : Capd C :=
  reserve c ((rs.map fun r => IdxCont.len r.a).sum)
def clone (c : Capd C) : Capd C := ⟨c.a, HasStores.lens c.a⟩
def cloneFrom (dst src : Capd C) : Capd C := ⟨src.a, fit dst.caps (HasStores.lens src.a)⟩
def heap (c : Capd C) : List (Nat × Nat) :=
  List.zipWith (fun (p : Nat × Nat) (sz : Nat) => (p.1 * sz, p.2 * sz))
    (List.zip (HasStores.lens c.a) c.caps) (HasStores.sizes C)
end Capd

instance {C T : Type} [IdxCont C T] [HasStores C] : IdxCont (Capd C) T where
  default := ⟨IdxCont.default, Capd.zeros (C := C)⟩
  push c x := let a' := IdxCont.push c.a x; ⟨a', Capd.fit c.caps (HasStores.lens a')⟩
  index c i := IdxCont.index c.a i
  len c := IdxCont.len c.a
  isEmpty c := IdxCont.isEmpty c.a
  clear c := ⟨IdxCont.clear c.a, c.caps⟩
  iter c := IdxCont.iter c.a
  usedBytes c := IdxCont.usedBytes c.a
  Inv c := IdxCont.Inv c.a

/-- `Storage` operations of an index container beyond push/index -/
class IdxAux (O : Type) {T : outParam Type} [IdxCont O T] where
  reserve : O → Nat → O
  withCapacity : Nat → O
  mergeRegions : List O → O
  reserveRegions : O → List O → O
  clone : O → O
  cloneFrom : O → O → O
  heap : O → List (Nat × Nat)
  selfSize : Nat

instance {C T : Type} [IdxCont C T] [HasStores C] : IdxAux (Capd C) where
  reserve := Capd.reserve
  withCapacity := Capd.withCapacity
  mergeRegions := Capd.mergeRegions
  reserveRegions := Capd.reserveRegions
  clone := Capd.clone
  cloneFrom := Capd.cloneFrom
  heap := Capd.heap
  selfSize := HasStores.selfSize C

/-! ### Regions -/

/-- `reserve_items`, `reserve_regions`, `merge_regions`, `Clone`, `heap_size` -/
class RegionAux (R : Type) {V I : outParam Type} [Region R V I] where
  reserveItems : R → List V → R
  reserveRegions : R → List R → R
  mergeRegions : List R → R
  clone : R → R
  /-- `cloneFrom dst src` -/
  cloneFrom : R → R → R
  heap : R → List (Nat × Nat)
  /-- `size_of::<R>()` -/
  selfSize : Nat

instance (T : Type) : RegionAux (MirrorRegion T) where
  reserveItems r _ := r
  reserveRegions r _ := r
  mergeRegions _ := {}
  clone r := r
  cloneFrom _ s := s
  heap _ := []
  selfSize := 0

instance (T : Type) [ElemSize T] : RegionAux (OwnedRegion T) where
  reserveItems r vs := ⟨r.slices.reserve ((vs.map List.length).sum)⟩
  reserveRegions r rs := ⟨r.slices.reserve ((rs.map fun x => x.slices.len).sum)⟩
  mergeRegions rs := ⟨MVec.withCapacity ((rs.map fun x => x.slices.len).sum)⟩
  clone r := ⟨r.slices.clone⟩
  cloneFrom d s := ⟨d.slices.cloneFrom s.slices⟩
  heap r := [r.slices.heap (ElemSize.bytes T)]
  selfSize := 24

instance (T : Type) [ElemSize T] : RegionAux (VecRegion T) where
  reserveItems r vs := ⟨r.v.reserve vs.length⟩
  reserveRegions r rs := ⟨r.v.reserve ((rs.map fun x => x.v.len).sum)⟩
  mergeRegions rs := ⟨MVec.withCapacity ((rs.map fun x => x.v.len).sum)⟩
  clone r := ⟨r.v.clone⟩
  cloneFrom d s := ⟨d.v.cloneFrom s.v⟩
  heap r := [r.v.heap (ElemSize.bytes T)]
  selfSize := 24

instance {R I : Type} [Region R (List UInt8) I] [RegionAux R] : RegionAux (StringRegion R) where
  reserveItems r vs := ⟨RegionAux.reserveItems r.inner vs⟩
  reserveRegions r rs := ⟨RegionAux.reserveRegions r.inner (rs.map (·.inner))⟩
  mergeRegions rs := ⟨RegionAux.mergeRegions (rs.map (·.inner))⟩
  clone r := ⟨RegionAux.clone r.inner⟩
  cloneFrom d s := ⟨RegionAux.cloneFrom d.inner s.inner⟩
  heap r := RegionAux.heap r.inner
  selfSize := RegionAux.selfSize R

instance {R V I : Type} [Region R V I] [RegionAux R] : RegionAux (OptionRegion R) where
  reserveItems r vs := ⟨RegionAux.reserveItems r.inner (vs.filterMap id)⟩
  reserveRegions r rs := ⟨RegionAux.reserveRegions r.inner (rs.map (·.inner))⟩
  mergeRegions rs := ⟨RegionAux.mergeRegions (rs.map (·.inner))⟩
  clone r := ⟨RegionAux.clone r.inner⟩
  cloneFrom d s := ⟨RegionAux.cloneFrom d.inner s.inner⟩
  heap r := RegionAux.heap r.inner
  selfSize := RegionAux.selfSize R

instance {T VT IT E VE IE : Type} [Region T VT IT] [Region E VE IE] [RegionAux T] [RegionAux E] :
    RegionAux (ResultRegion T E) where
  reserveItems r vs :=
    ⟨RegionAux.reserveItems r.oks (vs.filterMap fun | .ok x => some x | .error _ => none),
     RegionAux.reserveItems r.errs (vs.filterMap fun | .ok _ => none | .error x => some x)⟩
  reserveRegions r rs :=
    ⟨RegionAux.reserveRegions r.oks (rs.map (·.oks)), RegionAux.reserveRegions r.errs (rs.map (·.errs))⟩
  mergeRegions rs := ⟨RegionAux.mergeRegions (rs.map (·.oks)), RegionAux.mergeRegions (rs.map (·.errs))⟩
  clone r := ⟨RegionAux.clone r.oks, RegionAux.clone r.errs⟩
  cloneFrom d s := ⟨RegionAux.cloneFrom d.oks s.oks, RegionAux.cloneFrom d.errs s.errs⟩
  heap r := RegionAux.heap r.oks ++ RegionAux.heap r.errs
  selfSize := RegionAux.selfSize T + RegionAux.selfSize E

instance : RegionAux TupleNil where
  reserveItems r _ := r
  reserveRegions r _ := r
  mergeRegions _ := {}
  clone r := r
  cloneFrom _ s := s
  heap _ := []
  selfSize := 0

instance {A VA IA B VB IB : Type} [Region A VA IA] [Region B VB IB] [RegionAux A] [RegionAux B] :
    RegionAux (TupleCons A B) where
  reserveItems r vs := ⟨RegionAux.reserveItems r.head (vs.map (·.1)), RegionAux.reserveItems r.tail (vs.map (·.2))⟩
  reserveRegions r rs :=
    ⟨RegionAux.reserveRegions r.head (rs.map (·.head)), RegionAux.reserveRegions r.tail (rs.map (·.tail))⟩
  mergeRegions rs := ⟨RegionAux.mergeRegions (rs.map (·.head)), RegionAux.mergeRegions (rs.map (·.tail))⟩
  clone r := ⟨RegionAux.clone r.head, RegionAux.clone r.tail⟩
  cloneFrom d s := ⟨RegionAux.cloneFrom d.head s.head, RegionAux.cloneFrom d.tail s.tail⟩
  heap r := RegionAux.heap r.head ++ RegionAux.heap r.tail
  selfSize := RegionAux.selfSize A + RegionAux.selfSize B

/-- `size_of` of the index types that are remembered inside regions -/
class IndexSize (I : Type) where
  bytes : Nat
  /-- `size_of::<Option<I>>()` -/
  optBytes : Nat
instance : IndexSize Nat := ⟨8, 16⟩
instance : IndexSize (Nat × Nat) := ⟨16, 24⟩
instance : IndexSize F64 := ⟨8, 16⟩
instance : IndexSize Unit := ⟨0, 1⟩

instance {R V I : Type} [Region R V I] [HasEqv V] [RegionAux R] [IndexSize I] :
    RegionAux (CollapseSequence R I) where
  reserveItems r _ := r                               -- no `ReserveItems` impl
  reserveRegions r rs := ⟨RegionAux.reserveRegions r.inner (rs.map (·.inner)), r.last⟩
  mergeRegions rs := ⟨RegionAux.mergeRegions (rs.map (·.inner)), none⟩
  clone r := ⟨RegionAux.clone r.inner, r.last⟩
  cloneFrom d s := ⟨RegionAux.cloneFrom d.inner s.inner, s.last⟩
  heap r := RegionAux.heap r.inner
  selfSize := RegionAux.selfSize R + IndexSize.optBytes I

section Slice
variable {R V I O : Type} [Region R V I] [IdxCont O I] [RegionAux R] [IdxAux O]

/-- `SliceRegion::merge_regions` as it was in the tree before the repair of D8: the index
container of the merged region is not pre-sized. -/
def SliceRegion.mergeLegacy (rs : List (SliceRegion R O)) : SliceRegion R O :=
  ⟨IdxCont.default, RegionAux.mergeRegions (rs.map (·.inner))⟩

instance : RegionAux (SliceRegion R O) where
  -- `self.slices.reserve(items.map(len).sum()); self.inner.reserve_items(items.flatten())`
  reserveItems r vs := ⟨IdxAux.reserve r.slices ((vs.map List.length).sum), RegionAux.reserveItems r.inner vs.flatten⟩
  reserveRegions r rs :=
    ⟨IdxAux.reserve r.slices ((rs.map fun x => IdxCont.len x.slices).sum),
     RegionAux.reserveRegions r.inner (rs.map (·.inner))⟩
  mergeRegions rs := ⟨IdxAux.mergeRegions (rs.map (·.slices)), RegionAux.mergeRegions (rs.map (·.inner))⟩
  clone r := ⟨IdxAux.clone r.slices, RegionAux.clone r.inner⟩
  cloneFrom d s := ⟨IdxAux.cloneFrom d.slices s.slices, RegionAux.cloneFrom d.inner s.inner⟩
  heap r := IdxAux.heap r.slices ++ RegionAux.heap r.inner
  selfSize := IdxAux.selfSize O + RegionAux.selfSize R
end Slice

instance {R V O : Type} [Region R V (Nat × Nat)] [DenseRegion R] [IdxCont O Nat] [RegionAux R] [IdxAux O] :
    RegionAux (ConsecPairs R O) where
  reserveItems r vs := ⟨RegionAux.reserveItems r.inner vs, r.indices, r.last⟩
  reserveRegions r rs := ⟨RegionAux.reserveRegions r.inner (rs.map (·.inner)), r.indices, r.last⟩
  mergeRegions rs := ⟨RegionAux.mergeRegions (rs.map (·.inner)), IdxCont.push IdxCont.default 0, 0⟩
  clone r := ⟨RegionAux.clone r.inner, IdxAux.clone r.indices, r.last⟩
  cloneFrom d s := ⟨RegionAux.cloneFrom d.inner s.inner, IdxAux.cloneFrom d.indices s.indices, s.last⟩
  heap r := IdxAux.heap r.indices ++ RegionAux.heap r.inner
  selfSize := RegionAux.selfSize R + IdxAux.selfSize O + 8

section Columns
variable {R V I O : Type} [Region R V I] [IdxCont O Nat] [RegionAux R] [IdxAux O] [ElemSize I]

/-- `Vec<R>::clone_from`: truncate, element-wise `clone_from` on the common prefix, clone the rest -/
def colsCloneFrom (dst src : List R) : List R :=
  (List.zipWith RegionAux.cloneFrom (dst.take src.length) src) ++ (src.drop dst.length).map RegionAux.clone

instance : RegionAux (ColumnsRegion R I O) where
  reserveItems r _ := r                               -- no `ReserveItems` impl
  reserveRegions r rs :=
    -- pad to the widest source, then every column reserves for the sources that have it
    let n := (rs.map fun x => x.cols.length).foldl max 0
    let cols := padCols r.cols n
    ⟨r.indices, (List.range cols.length).zipWith (fun k c => RegionAux.reserveRegions c (rs.filterMap fun x => x.cols[k]?)) cols⟩
  mergeRegions rs :=
    let n := (rs.map fun x => x.cols.length).foldl max 0
    ⟨RegionAux.mergeRegions (rs.map (·.indices)),
     (List.range n).map fun k => RegionAux.mergeRegions (rs.filterMap fun x => x.cols[k]?)⟩
  clone r := ⟨RegionAux.clone r.indices, r.cols.map RegionAux.clone⟩
  cloneFrom d s := ⟨RegionAux.cloneFrom d.indices s.indices, colsCloneFrom d.cols s.cols⟩
  -- the `Vec<R>` of columns, every column, then the row offsets; the capacity of the column
  -- vector is not modelled (reported as its length)
  heap r := [(r.cols.length * RegionAux.selfSize R, r.cols.length * RegionAux.selfSize R)] ++
    (r.cols.map RegionAux.heap).flatten ++ RegionAux.heap r.indices
  selfSize := (24 + IdxAux.selfSize O + 8) + 24
end Columns

/-! ### FlatStack as a region: `copy` is `push`, position k is the index -/
section Stack
variable {R V I S : Type} [Region R V I] [IdxCont S I]

instance : Region (FlatStack R S) V Nat where
  default := FlatStack.default
  push fs v := (fs.copy v).map fun fs' => (fs', IdxCont.len fs.indices)
  index fs k := fs.get k
  clear fs := fs.clear
  Inv fs := Inv fs.region ∧ IdxCont.Inv fs.indices ∧ ∀ j ∈ IdxCont.iter fs.indices, Valid fs.region j
  Valid fs k := k < (IdxCont.iter fs.indices).length
  Accepts fs v := Accepts fs.region v
  Sim a b := IdxCont.iter a.indices = IdxCont.iter b.indices ∧ Sim a.region b.region
  same u v := same (R := R) u v

instance [RegionAux R] [IdxAux S] : RegionAux (FlatStack R S) where
  reserveItems fs vs := ⟨fs.indices, RegionAux.reserveItems fs.region vs⟩
  reserveRegions fs rs := ⟨fs.indices, RegionAux.reserveRegions fs.region (rs.map (·.region))⟩
  -- `merge_capacity`
  mergeRegions rs := ⟨IdxAux.mergeRegions (rs.map (·.indices)), RegionAux.mergeRegions (rs.map (·.region))⟩
  clone fs := ⟨IdxAux.clone fs.indices, RegionAux.clone fs.region⟩
  cloneFrom d s := ⟨IdxAux.cloneFrom d.indices s.indices, RegionAux.cloneFrom d.region s.region⟩
  heap fs := RegionAux.heap fs.region ++ IdxAux.heap fs.indices
  selfSize := IdxAux.selfSize S + RegionAux.selfSize R

/-- `FlatStack::reserve` -/
def FlatStack.reserve [IdxAux S] (fs : FlatStack R S) (n : Nat) : FlatStack R S := ⟨IdxAux.reserve fs.indices n, fs.region⟩
/-- `FlatStack::with_capacity` -/
def FlatStack.withCapacity [IdxAux S] (n : Nat) : FlatStack R S := ⟨IdxAux.withCapacity n, Region.default⟩
end Stack

end FC
