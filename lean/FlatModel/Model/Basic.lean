/-! Basic machine arithmetic and vectors-with-capacity (src/impls/storage.rs, std Vec). -/
namespace FC

/-- `usize` range on the 64-bit targets the crate is tested on. -/
def USIZE : Nat := 2 ^ 64
def U32 : Nat := 2 ^ 32

/-- Build profile: overflow-checked (debug) or wrapping (release). -/
inductive Mode | checked | wrapping
deriving DecidableEq, Repr

/-- `a * b` on `usize` as rustc compiles it: `none` is the overflow panic of checked builds. -/
def umul (m : Mode) (a b : Nat) : Option Nat :=
  if a * b < USIZE then some (a * b)
  else match m with
    | .checked => none
    | .wrapping => some ((a * b) % USIZE)

/-- `usize::checked_mul` -/
def checkedMul (a b : Nat) : Option Nat := if a * b < USIZE then some (a * b) else none

/-- `f64` by bit pattern; `==` is IEEE (NaN ≠ NaN, +0 = −0) -/
structure F64 where
  bits : Nat
deriving DecidableEq, Repr, Inhabited

def F64.isNaN (x : F64) : Bool := (x.bits / 2 ^ 52) % 2 ^ 11 == 2 ^ 11 - 1 && x.bits % 2 ^ 52 != 0
def F64.isZero (x : F64) : Bool := x.bits % 2 ^ 63 == 0
/-- Rust `==` on `f64` -/
def F64.eq (a b : F64) : Bool := !a.isNaN && !b.isNaN && (a.bits == b.bits || (a.isZero && b.isZero))

/-- Growth policy of `Vec` (amortised doubling). Proofs use only `grow_ge_need`, `grow_ge_cap`,
`grow_ge_double`, so they hold for any policy with these three properties. -/
def grow (cap need : Nat) : Nat := max (2 * cap) need
theorem grow_ge_need (c n : Nat) : n ≤ grow c n := by unfold grow; omega
theorem grow_ge_cap (c n : Nat) : c ≤ grow c n := by unfold grow; omega
theorem grow_ge_double (c n : Nat) : 2 * c ≤ grow c n := by unfold grow; omega

/-- A `Vec<T>`: contents and capacity. Semantics only ever look at `data`. -/
structure MVec (α : Type) where
  data : List α
  cap : Nat
deriving Repr

namespace MVec
variable {α : Type}

def empty : MVec α := ⟨[], 0⟩
def len (v : MVec α) : Nat := v.data.length
def WF (v : MVec α) : Prop := v.data.length ≤ v.cap

/-- `Vec::reserve(additional)` -/
def reserve (v : MVec α) (additional : Nat) : MVec α :=
  if v.data.length + additional ≤ v.cap then v
  else ⟨v.data, grow v.cap (v.data.length + additional)⟩
/-- `Vec::push` -/
def push (v : MVec α) (x : α) : MVec α :=
  let v' := reserve v 1
  ⟨v'.data ++ [x], v'.cap⟩
/-- `extend_from_slice` / `extend` with exact size hint / `append` -/
def extend (v : MVec α) (xs : List α) : MVec α :=
  let v' := reserve v xs.length
  ⟨v'.data ++ xs, v'.cap⟩
/-- `Vec::with_capacity` -/
def withCapacity (n : Nat) : MVec α := ⟨[], n⟩
/-- `Vec::clear` keeps the allocation -/
def clear (v : MVec α) : MVec α := ⟨[], v.cap⟩

@[simp] theorem reserve_data (v : MVec α) (n : Nat) : (v.reserve n).data = v.data := by
  unfold reserve; split <;> rfl
@[simp] theorem push_data (v : MVec α) (x : α) : (v.push x).data = v.data ++ [x] := by simp [push]
@[simp] theorem extend_data (v : MVec α) (xs : List α) : (v.extend xs).data = v.data ++ xs := by simp [extend]
@[simp] theorem clear_data (v : MVec α) : v.clear.data = [] := rfl
@[simp] theorem empty_data : (empty : MVec α).data = [] := rfl
@[simp] theorem withCapacity_data (n : Nat) : (withCapacity n : MVec α).data = [] := rfl

end MVec
end FC
