import FlatModel.Model.Wrappers
/-! `FlatStack<R, S>` (src/lib.rs:169-415). -/
namespace FC
open Region

structure FlatStack (R S : Type) where
  indices : S
  region : R

namespace FlatStack
variable {R V I S : Type} [Region R V I] [IdxCont S I]

def default : FlatStack R S := ⟨IdxCont.default, Region.default⟩
/-- `copy`: push into the region, remember the index -/
def copy (fs : FlatStack R S) (v : V) : Option (FlatStack R S) :=
  match push fs.region v with
  | none => none
  | some (r', i) => some ⟨IdxCont.push fs.indices i, r'⟩
/-- `get`: `self.region.index(self.indices.index(index))`; `none` = panic -/
def get (fs : FlatStack R S) (k : Nat) : Option V :=
  match IdxCont.index fs.indices k with
  | none => none
  | some i => index fs.region i
def len (fs : FlatStack R S) : Nat := IdxCont.len fs.indices
def isEmpty (fs : FlatStack R S) : Bool := IdxCont.isEmpty fs.indices
def clear (fs : FlatStack R S) : FlatStack R S := ⟨IdxCont.clear fs.indices, Region.clear fs.region⟩
/-- iteration: map the index iterator through `Region::index` -/
def iter (fs : FlatStack R S) : List (Option V) := (IdxCont.iter fs.indices).map (index fs.region)
/-- `Extend::extend` / `FromIterator`: copy one by one (after a semantically invisible reserve) -/
def extend (fs : FlatStack R S) : List V → Option (FlatStack R S)
  | [] => some fs
  | v :: vs => match fs.copy v with | none => none | some fs' => extend fs' vs
def fromIter (vs : List V) : Option (FlatStack R S) := extend default vs

end FlatStack
end FC
