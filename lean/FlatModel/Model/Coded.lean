import FlatModel.Model.Ops
import FlatModel.Model.Huffman
import FlatModel.Model.HuffSpec
import FlatModel.Model.Codec
/-! The two coded regions behind the common `Region` interface. -/
namespace FC
open Region

instance : Region Huff.Container (List Nat) (Nat × Nat) where
  default := Huff.Container.default
  push := Huff.Container.push
  index := Huff.Container.index
  clear := Huff.Container.clear
  -- ghost fields (Model/HuffSpec.lean): raw mode: nothing / range within `raw` / everything;
  -- coded mode: `EncOK c ∧ TableOK c ∧ WFStore bytes bits` / the bit range denotes a concatenation of
  -- code words within the valid bits / every symbol has a code
  Inv := Huff.Container.Inv
  Valid := Huff.Container.Valid
  Accepts := Huff.Container.Accepts
  Sim a b := a = b
  same a b := a = b

/-- cursor: number of raw symbols, or number of valid bits -/
instance : DenseRegion Huff.Container where
  cursor h := match h.coded with | none => h.raw.length | some (_, _, bits) => bits

instance : RegionAux Huff.Container where
  reserveItems h _ := h
  reserveRegions h _ := h                  -- `todo!()` in the crate; never exercised
  mergeRegions := Huff.Container.merge
  clone h := h
  cloneFrom _ s := s
  heap _ := []                             -- `todo!()` in the crate; never exercised
  selfSize := 0

instance : Region Codec.Region (List UInt8) (Nat × Nat) where
  default := Codec.Region.default
  push := Codec.Region.push
  index := Codec.Region.index
  clear := Codec.Region.clear
  Inv r := r.codec.WF
  Valid r i := i.1 ≤ i.2 ∧ i.2 ≤ r.inner.length
  Accepts r v := (Codec.Region.push r v).isSome
  Sim a b := a.inner = b.inner ∧ a.codec.encode = b.codec.encode ∧ a.codec.decode.offsets = b.codec.decode.offsets
    ∧ a.codec.decode.bytes = b.codec.decode.bytes
  same a b := a = b

instance : DenseRegion Codec.Region where
  cursor r := r.inner.length

instance : RegionAux Codec.Region where
  reserveItems r _ := r
  reserveRegions r _ := r
  mergeRegions := Codec.Region.merge
  clone r := r
  cloneFrom _ s := s
  heap r := [(r.inner.length, r.inner.length)]
  selfSize := 0

end FC

namespace FC
open Region
/-- `HuffmanContainer<u8>`: the same container over byte symbols -/
structure HuffU8 where
  c : Huff.Container
deriving Inhabited

instance : Region HuffU8 (List UInt8) (Nat × Nat) where
  default := ⟨Huff.Container.default⟩
  push h v := (Huff.Container.push h.c (v.map UInt8.toNat)).map fun (c, i) => (⟨c⟩, i)
  index h i := (Huff.Container.index h.c i).map fun xs => xs.map UInt8.ofNat
  clear h := ⟨Huff.Container.clear h.c⟩
  Inv h := Huff.Container.Inv h.c
  Valid h i := Huff.Container.Valid h.c i
  Accepts h v := Huff.Container.Accepts h.c (v.map UInt8.toNat)
  Sim a b := a.c = b.c
  same a b := a = b

instance : DenseRegion HuffU8 where
  cursor h := DenseRegion.cursor h.c

instance : RegionAux HuffU8 where
  reserveItems h _ := h
  reserveRegions h _ := h
  mergeRegions rs := ⟨Huff.Container.merge (rs.map (·.c))⟩
  clone h := h
  cloneFrom _ s := s
  heap _ := []
  selfSize := 0
end FC
