import FlatModel.Model.Ops
/-! serde's data model, as far as the derives in the crate use it (C16). `ser` follows
`#[derive(Serialize)]` field by field (`PhantomData` is a unit); `de` follows `#[derive(Deserialize)]`
and allocates exactly (what `clone` yields in the model). -/
namespace FC

inductive SVal where
  | nat (n : Nat)
  | seq (xs : List SVal)
  /-- a struct: its fields in declaration order -/
  | obj (fields : List SVal)
  | null
  /-- enum variants: unit (`"Empty"`), newtype (`{"Ok": x}`), tuple (`{"Striding": [a, b]}`) -/
  | unitVariant (name : String)
  | newtypeVariant (name : String) (v : SVal)
  | tupleVariant (name : String) (vs : List SVal)
deriving Inhabited

namespace SVal
partial def toJson : SVal → String
  | nat n => toString n
  | seq xs => "[" ++ ",".intercalate (xs.map toJson) ++ "]"
  | obj fs => "{" ++ ",".intercalate ((fs.zipIdx).map fun (f, i) => s!"\"f{i}\":" ++ toJson f) ++ "}"
  | null => "null"
  | unitVariant n => s!"\"{n}\""
  | newtypeVariant n v => "{" ++ s!"\"{n}\":" ++ toJson v ++ "}"
  | tupleVariant n vs => "{" ++ s!"\"{n}\":[" ++ ",".intercalate (vs.map toJson) ++ "]}"
end SVal

/-- `Serialize + Deserialize` -/
class Ser (α : Type) where
  ser : α → SVal
  de : SVal → Option α

/-- sequence of elements -/
def deList {α : Type} (f : SVal → Option α) : List SVal → Option (List α)
  | [] => some []
  | x :: xs => match f x, deList f xs with
    | some a, some as => some (a :: as)
    | _, _ => none

instance : Ser Nat where
  ser := SVal.nat
  de v := match v with | .nat n => some n | _ => none
instance : Ser UInt8 where
  ser b := SVal.nat b.toNat
  de v := match v with | .nat n => if n < 256 then some (UInt8.ofNat n) else none | _ => none
instance : Ser Unit where
  ser _ := SVal.null
  de v := match v with | .null => some () | _ => none
instance : Ser F64 where
  ser x := SVal.nat x.bits
  de v := match v with | .nat n => some ⟨n⟩ | _ => none
instance {α : Type} [Ser α] : Ser (List α) where
  ser xs := SVal.seq (xs.map Ser.ser)
  de v := match v with | .seq xs => deList Ser.de xs | _ => none
instance {α β : Type} [Ser α] [Ser β] : Ser (α × β) where
  ser p := SVal.seq [Ser.ser p.1, Ser.ser p.2]
  de v := match v with
    | .seq [a, b] => (match Ser.de a, Ser.de b with | some x, some y => some (x, y) | _, _ => none)
    | _ => none
/-- index tuples `(A, B, …)` are right-nested pairs ending in `Unit` in the model and flat sequences in serde -/
class SerTuple (τ : Type) where
  elems : τ → List SVal
  ofElems : List SVal → Option τ
instance : SerTuple Unit where
  elems _ := []
  ofElems l := match l with | [] => some () | _ => none
instance {α τ : Type} [Ser α] [SerTuple τ] : SerTuple (α × τ) where
  elems p := Ser.ser p.1 :: SerTuple.elems p.2
  ofElems l := match l with
    | a :: rest => (match Ser.de a, SerTuple.ofElems rest with | some x, some y => some (x, y) | _, _ => none)
    | [] => none
instance (priority := high) {α τ : Type} [Ser α] [SerTuple τ] : Ser (α × τ) where
  ser p := SVal.seq (SerTuple.elems p)
  de v := match v with | .seq xs => SerTuple.ofElems xs | _ => none

/-- `Option<T>`: `None` is `null`. (A self-describing format cannot tell `Some(None)` from `None`;
the model keeps them apart by tagging, the check never serialises nested options as indices.) -/
instance {α : Type} [Ser α] : Ser (Option α) where
  ser o := match o with | none => SVal.null | some a => SVal.newtypeVariant "Some" (Ser.ser a)
  de v := match v with
    | .null => some none
    | .newtypeVariant n w => if n == "Some" then (Ser.de w).map some else none
    | _ => none
instance {α β : Type} [Ser α] [Ser β] : Ser (Except β α) where
  ser e := match e with
    | .ok a => SVal.newtypeVariant "Ok" (Ser.ser a)
    | .error b => SVal.newtypeVariant "Err" (Ser.ser b)
  de v := match v with
    | .newtypeVariant n w =>
      if n == "Ok" then (Ser.de w).map Except.ok else if n == "Err" then (Ser.de w).map Except.error else none
    | _ => none

/-- `Vec<T>` -/
instance {α : Type} [Ser α] : Ser (MVec α) where
  ser v := SVal.seq (v.data.map Ser.ser)
  de v := match v with | .seq xs => (deList Ser.de xs).map fun d => ⟨d, d.length⟩ | _ => none

/-! ### index containers -/
instance (T : Type) (sz : Nat) [Ser T] : Ser (VecIdx T sz) where
  ser c := SVal.seq (c.v.map Ser.ser)
  de v := match v with | .seq xs => (deList Ser.de xs).map fun d => ⟨d⟩ | _ => none

instance : Ser Stride where
  ser s := match s with
    | .empty => SVal.unitVariant "Empty"
    | .zero => SVal.unitVariant "Zero"
    | .striding s c => SVal.tupleVariant "Striding" [SVal.nat s, SVal.nat c]
    | .saturated s c r => SVal.tupleVariant "Saturated" [SVal.nat s, SVal.nat c, SVal.nat r]
  de v := match v with
    | .unitVariant n => if n == "Empty" then some .empty else if n == "Zero" then some .zero else none
    | .tupleVariant n [SVal.nat s, SVal.nat c] => if n == "Striding" then some (.striding s c) else none
    | .tupleVariant n [SVal.nat s, SVal.nat c, SVal.nat r] => if n == "Saturated" then some (.saturated s c r) else none
    | _ => none

instance : Ser IndexList where
  ser l := SVal.obj [Ser.ser l.smol, Ser.ser l.chonk]
  de v := match v with
    | .obj [a, b] => (match Ser.de (α := List Nat) a, Ser.de (α := List Nat) b with | some x, some y => some ⟨x, y⟩ | _, _ => none)
    | _ => none

instance : Ser IndexOptimized where
  ser o := SVal.obj [Ser.ser o.strided, Ser.ser o.spilled]
  de v := match v with
    | .obj [a, b] => (match Ser.de (α := Stride) a, Ser.de (α := IndexList) b with | some x, some y => some ⟨x, y⟩ | _, _ => none)
    | _ => none

instance {C T : Type} [IdxCont C T] [HasStores C] [Ser C] : Ser (Capd C) where
  ser c := Ser.ser c.a
  de v := (Ser.de v).map fun a => ⟨a, HasStores.lens a⟩

/-! ### regions -/
instance (T : Type) : Ser (MirrorRegion T) where
  ser _ := SVal.null
  de v := match v with | .null => some {} | _ => none
instance (T : Type) [Ser T] : Ser (OwnedRegion T) where
  ser r := SVal.obj [Ser.ser r.slices, SVal.null]
  de v := match v with | .obj [a, .null] => (Ser.de a).map fun s => ⟨s⟩ | _ => none
instance (T : Type) [Ser T] : Ser (VecRegion T) where
  ser r := Ser.ser r.v
  de v := (Ser.de v).map fun s => ⟨s⟩
instance {R : Type} [Ser R] : Ser (StringRegion R) where
  ser r := SVal.obj [Ser.ser r.inner]
  de v := match v with | .obj [a] => (Ser.de a).map fun s => ⟨s⟩ | _ => none
instance {R : Type} [Ser R] : Ser (OptionRegion R) where
  ser r := SVal.obj [Ser.ser r.inner]
  de v := match v with | .obj [a] => (Ser.de a).map fun s => ⟨s⟩ | _ => none
instance {T E : Type} [Ser T] [Ser E] : Ser (ResultRegion T E) where
  ser r := SVal.obj [Ser.ser r.oks, Ser.ser r.errs]
  de v := match v with
    | .obj [a, b] => (match Ser.de a, Ser.de b with | some x, some y => some ⟨x, y⟩ | _, _ => none)
    | _ => none

/-- the fields of a tuple region struct (`containerA`, `containerB`, …) -/
class SerFields (T : Type) where
  fields : T → List SVal
  ofFields : List SVal → Option T
instance : SerFields TupleNil where
  fields _ := []
  ofFields l := match l with | [] => some {} | _ => none
instance {A B : Type} [Ser A] [SerFields B] : SerFields (TupleCons A B) where
  fields r := Ser.ser r.head :: SerFields.fields r.tail
  ofFields l := match l with
    | a :: rest => (match Ser.de a, SerFields.ofFields rest with | some x, some y => some ⟨x, y⟩ | _, _ => none)
    | [] => none
instance : Ser TupleNil where
  ser _ := SVal.obj []
  de v := match v with | .obj [] => some {} | _ => none
instance {A B : Type} [Ser A] [SerFields B] : Ser (TupleCons A B) where
  ser r := SVal.obj (SerFields.fields r)
  de v := match v with | .obj fs => SerFields.ofFields fs | _ => none

instance {R I : Type} [Ser R] [Ser I] : Ser (CollapseSequence R I) where
  ser r := SVal.obj [Ser.ser r.inner, Ser.ser r.last]
  de v := match v with
    | .obj [a, b] => (match Ser.de a, Ser.de b with | some x, some y => some ⟨x, y⟩ | _, _ => none)
    | _ => none
instance {R O : Type} [Ser R] [Ser O] : Ser (SliceRegion R O) where
  ser r := SVal.obj [Ser.ser r.slices, Ser.ser r.inner]
  de v := match v with
    | .obj [a, b] => (match Ser.de a, Ser.de b with | some x, some y => some ⟨x, y⟩ | _, _ => none)
    | _ => none
instance {R O : Type} [Ser R] [Ser O] : Ser (ConsecPairs R O) where
  ser r := SVal.obj [Ser.ser r.inner, Ser.ser r.indices, SVal.nat r.last]
  de v := match v with
    | .obj [a, b, .nat l] => (match Ser.de a, Ser.de b with | some x, some y => some ⟨x, y, l⟩ | _, _ => none)
    | _ => none
instance {R I O : Type} [Ser R] [Ser I] [Ser O] : Ser (ColumnsRegion R I O) where
  ser r := SVal.obj [Ser.ser r.indices, Ser.ser r.cols]
  de v := match v with
    | .obj [a, b] => (match Ser.de a, Ser.de (α := List R) b with | some x, some y => some ⟨x, y⟩ | _, _ => none)
    | _ => none
instance {R S : Type} [Ser R] [Ser S] : Ser (FlatStack R S) where
  ser fs := SVal.obj [Ser.ser fs.indices, Ser.ser fs.region]
  de v := match v with
    | .obj [a, b] => (match Ser.de a, Ser.de b with | some x, some y => some ⟨x, y⟩ | _, _ => none)
    | _ => none

end FC
