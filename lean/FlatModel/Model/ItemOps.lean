import FlatModel.Model.Items2
/-! Read items, part 3: which read item every *region type* issues, and the `IntoOwned` operations of that
item, by recursion over the region type exactly as the Rust impls nest (`type ReadItem<'a> = …` of each
`impl Region`, and the `impl IntoOwned for …` of that item type). This is what ties Model/Items2.lean to
the crate: the driver answers `item … owned`, `item … cloneonto <target>` and (for Huffman compositions)
`cmp …` through `ItemOps` / `ItemCmp`, i.e. through `OptionItem.cloneOnto`, `ResultItem.cloneOnto`,
`TupleItem.cloneOnto`, `SliceItem.cloneOnto`, `Wrapped.cloneOnto`, `Wrapped.eq`, … (Driver/Banks.lean).

Representation. `X` is the model of `R::ReadItem<'a>` in *evaluated* form: composite items are the
composite of their element items (`Option X`, `Except XE XT`, `XA × XB`, and — as in Model/Items2 — a slice
or row item is the list of element items its iterator yields); the Huffman item is a `Wrapped` together
with the fact that its decoder does not panic. `item?` is `Region::index` returning the item; it answers
`none` when building the item *or evaluating any part of it* panics. Rust evaluates lazily, but
`into_owned` / `clone_onto` visit every part of the item, so for these operations "some part panics" and
"the operation panics" coincide (and under the region invariant nothing panics at all,
Props/C14c.lean). No Mathlib: this file is linked into `fcmodel`. -/
namespace FC
open Region

/-! ### a Huffman item whose decoder does not panic -/

namespace Wrapped

theorem intoOwned_isSome (a : Wrapped) (h : a.decode.isSome) : a.intoOwned.isSome := by
  cases a <;> exact h

theorem cloneOnto_isSome (a : Wrapped) (t : List Nat) (h : a.decode.isSome) : (a.cloneOnto t).isSome := by
  cases a with
  | raw syms => rfl
  | encoded c bytes lo hi =>
    simp only [decode] at h
    simp only [cloneOnto]
    cases hd : Huff.decodeRange c bytes lo hi with
    | none => rw [hd] at h; cases h
    | some xs => rfl

end Wrapped

/-- a Huffman item whose decoding does not panic — every item issued at a valid index of a consistent
container (`C14.huffman_item_ok`), and every borrowed one -/
def WrappedOK : Type := { a : Wrapped // a.decode.isSome }

namespace WrappedOK

/-- evaluate the item: `none` = its decoder panics -/
def ofWrapped? (a : Wrapped) : Option WrappedOK :=
  if h : a.decode.isSome then some ⟨a, h⟩ else none

/-- `Wrapped::into_owned` (`Wrapped.intoOwned`), which cannot panic here -/
def intoOwned (a : WrappedOK) : List Nat := a.1.intoOwned.get (Wrapped.intoOwned_isSome a.1 a.2)

/-- `Wrapped::clone_onto` (`Wrapped.cloneOnto`), which cannot panic here -/
def cloneOnto (a : WrappedOK) (t : List Nat) : List Nat :=
  (a.1.cloneOnto t).get (Wrapped.cloneOnto_isSome a.1 t a.2)

/-- `Wrapped::borrow_as` -/
def borrowAs (o : List Nat) : WrappedOK := ⟨Wrapped.borrowAs o, rfl⟩

end WrappedOK

/-! ### the class -/

/-- `R::ReadItem<'a>` (modelled by `X`) and its `IntoOwned` impl, for the region type `R`.
`V` = `R::Owned`, `I` = `R::Index`. -/
class ItemOps (R : Type) {V I : outParam Type} [Region R V I] (X : outParam Type) where
  /-- `Region::index`, returning the read item; `none` = panic (see the header) -/
  item? : R → I → Option X
  /-- `IntoOwned::borrow_as` -/
  borrowAs : V → X
  /-- `IntoOwned::into_owned` -/
  intoOwned : X → V
  /-- `IntoOwned::clone_onto`, state-passing: the value of `*other` afterwards -/
  cloneOnto : X → V → V

namespace ItemOps
variable {R V I X : Type} [Region R V I] [ItemOps R X]

/-- the item the harness hands to its `item_op` / `cmp_items` (harness/src/entry.rs): region-backed
`region.index(i)`, or borrowed `borrow_as(&region.index(i).into_owned())` -/
def read (r : R) (i : I) (borrowed : Bool) : Option X :=
  match item? r i with
  | none => none
  | some x => if borrowed then some (borrowAs (R := R) (intoOwned (R := R) x)) else some x

/-- `item.clone_onto(&mut t); t` -/
def cloneOntoAt (r : R) (i : I) (borrowed : Bool) (t : V) : Option V :=
  (read r i borrowed).map fun x => cloneOnto (R := R) x t

/-- `item.into_owned()` -/
def intoOwnedAt (r : R) (i : I) (borrowed : Bool) : Option V :=
  (read r i borrowed).map (intoOwned (R := R))

end ItemOps

/-! ### terminals: the item is a `Copy` value or a shared reference, `IntoOwned` is the base impl
(`implement_for!` in mirror.rs for values; `impl IntoOwned for &'a T where T: ToOwned` in lib.rs for
`&[T]`, `&T`, `&str`: `to_owned` / `clone_into` / `borrow`) -/

/-- `MirrorRegion<T>`: `ReadItem = T`, `index(i) = i` -/
instance (T : Type) : ItemOps (MirrorRegion T) T where
  item? r i := index r i
  borrowAs := BaseItem.borrowAs
  intoOwned := BaseItem.intoOwned
  cloneOnto := BaseItem.cloneOnto

/-- `OwnedRegion<T>`: `ReadItem = &[T]` -/
instance (T : Type) : ItemOps (OwnedRegion T) (List T) where
  item? r i := index r i
  borrowAs := BaseItem.borrowAs
  intoOwned := BaseItem.intoOwned
  cloneOnto := BaseItem.cloneOnto

/-- `Vec<T>` as a region: `ReadItem = &T` -/
instance (T : Type) : ItemOps (VecRegion T) T where
  item? r i := index r i
  borrowAs := BaseItem.borrowAs
  intoOwned := BaseItem.intoOwned
  cloneOnto := BaseItem.cloneOnto

/-- `CodecRegion`: `ReadItem = &[u8]` -/
instance : ItemOps Codec.Region (List UInt8) where
  item? r i := index r i
  borrowAs := BaseItem.borrowAs
  intoOwned := BaseItem.intoOwned
  cloneOnto := BaseItem.cloneOnto

/-- the unit at the end of a right-nested tuple (`()` is a base item) -/
instance : ItemOps TupleNil Unit where
  item? r i := index r i
  borrowAs := BaseItem.borrowAs
  intoOwned := BaseItem.intoOwned
  cloneOnto := BaseItem.cloneOnto

/-- `StringRegion<R> where R: Region<ReadItem<'a> = &'a [u8]>`: `ReadItem = &str`,
`index(i) = from_utf8_unchecked(self.inner.index(i))` — the inner item's bytes, read as a `&str`,
whose `IntoOwned` is again the base impl (`str: ToOwned`) -/
instance {R I : Type} [Region R (List UInt8) I] [ItemOps R (List UInt8)] :
    ItemOps (StringRegion R) (List UInt8) where
  item? r i := ItemOps.item? r.inner i
  borrowAs := BaseItem.borrowAs
  intoOwned := BaseItem.intoOwned
  cloneOnto := BaseItem.cloneOnto

/-! ### fan-out regions -/

/-- `OptionRegion<R>`: `ReadItem = Option<R::ReadItem>`, `index(i) = i.map(|t| self.inner.index(t))`;
`impl IntoOwned for Option<T>` -/
instance {R V I X : Type} [Region R V I] [ItemOps R X] : ItemOps (OptionRegion R) (Option X) where
  item? r i :=
    match i with
    | none => some none
    | some j => (ItemOps.item? r.inner j).map some
  borrowAs := OptionItem.borrowAs (ItemOps.borrowAs (R := R))
  intoOwned := OptionItem.intoOwned (ItemOps.intoOwned (R := R))
  cloneOnto := OptionItem.cloneOnto (ItemOps.intoOwned (R := R)) (ItemOps.cloneOnto (R := R))

/-- `ResultRegion<T, E>`: `ReadItem = Result<T::ReadItem, E::ReadItem>`,
`index(i) = match i { Ok(i) => Ok(self.oks.index(i)), Err(i) => Err(self.errs.index(i)) }`;
`impl IntoOwned for Result<T, E>` -/
instance {T VT IT XT E VE IE XE : Type} [Region T VT IT] [Region E VE IE] [ItemOps T XT] [ItemOps E XE] :
    ItemOps (ResultRegion T E) (Except XE XT) where
  item? r i :=
    match i with
    | .ok j => (ItemOps.item? r.oks j).map .ok
    | .error j => (ItemOps.item? r.errs j).map .error
  borrowAs := ResultItem.borrowAs (ItemOps.borrowAs (R := T)) (ItemOps.borrowAs (R := E))
  intoOwned := ResultItem.intoOwned (ItemOps.intoOwned (R := T)) (ItemOps.intoOwned (R := E))
  cloneOnto := ResultItem.cloneOnto (ItemOps.intoOwned (R := T)) (ItemOps.cloneOnto (R := T))
    (ItemOps.intoOwned (R := E)) (ItemOps.cloneOnto (R := E))

/-- tuple regions: `ReadItem = (A::ReadItem, B::ReadItem, …)`, `index` field-wise;
`impl IntoOwned for (A, B, …)` — right-nested as `TupleCons` -/
instance {A VA IA XA B VB IB XB : Type} [Region A VA IA] [Region B VB IB] [ItemOps A XA] [ItemOps B XB] :
    ItemOps (TupleCons A B) (XA × XB) where
  item? r i :=
    match ItemOps.item? r.head i.1, ItemOps.item? r.tail i.2 with
    | some x, some y => some (x, y)
    | _, _ => none
  borrowAs := TupleItem.borrowAs (ItemOps.borrowAs (R := A)) (ItemOps.borrowAs (R := B))
  intoOwned := TupleItem.intoOwned (ItemOps.intoOwned (R := A)) (ItemOps.intoOwned (R := B))
  cloneOnto := TupleItem.cloneOnto (ItemOps.cloneOnto (R := A)) (ItemOps.cloneOnto (R := B))

/-! ### slices and rows: the item is the list of element items its iterator yields -/

section Slice
variable {R V I X O : Type} [Region R V I] [ItemOps R X] [IdxCont O I]

/-- the element items `ReadSlice(Ok(ReadSliceInner { region, start, end })).iter()` yields:
`region.inner.index(region.slices.index(k))` for `k` in `start..end` (as `ReadSlice.iter`, Model/Items.lean,
with the element *items* instead of their owned values) -/
def SliceRegion.items? (r : SliceRegion R O) (i : Nat × Nat) : Option (List X) :=
  (List.range (i.2 - i.1)).mapM fun k => (IdxCont.index r.slices (i.1 + k)).bind (ItemOps.item? r.inner)

/-- `SliceRegion<R, O>`: `ReadItem = ReadSlice`; `impl IntoOwned for ReadSlice`; the borrowed form
`ReadSlice(Err(owned.as_slice()))` iterates `IntoOwned::borrow_as(&owned[k])` -/
instance : ItemOps (SliceRegion R O) (List X) where
  item? := SliceRegion.items?
  borrowAs := SliceItem.borrowAs (ItemOps.borrowAs (R := R))
  intoOwned := SliceItem.intoOwned (ItemOps.intoOwned (R := R))
  cloneOnto := SliceItem.cloneOnto (ItemOps.intoOwned (R := R)) (ItemOps.cloneOnto (R := R))

end Slice

section Columns
variable {R V I X O : Type} [Region R V I] [ItemOps R X] [IdxCont O Nat]

/-- the element items `ReadColumns(Ok(ReadColumnsInner { columns, index })).iter()` yields:
`index.iter().zip(columns).map(|(i, c)| c.index(*i))` (as `readRow`, Model/Columns.lean) -/
def itemRow : List R → List I → Option (List X)
  | _, [] => some []
  | [], _ :: _ => none
  | c :: cs, i :: is =>
    match ItemOps.item? c i, itemRow cs is with
    | some x, some xs => some (x :: xs)
    | _, _ => none

/-- `ColumnsRegion<R, O>`: `ReadItem = ReadColumns`, `index(k)` = the columns with the row of indices
`self.indices.index(k)`; `impl IntoOwned for ReadColumns` (the same code as for `ReadSlice`) -/
instance : ItemOps (ColumnsRegion R I O) (List X) where
  item? r k :=
    match index r.indices k with
    | none => none
    | some is => itemRow r.cols is
  borrowAs := SliceItem.borrowAs (ItemOps.borrowAs (R := R))
  intoOwned := SliceItem.intoOwned (ItemOps.intoOwned (R := R))
  cloneOnto := SliceItem.cloneOnto (ItemOps.intoOwned (R := R)) (ItemOps.cloneOnto (R := R))

end Columns

/-! ### wrappers that forward the inner region's read item (`type ReadItem<'a> = R::ReadItem<'a>`) -/

/-- `CollapseSequence<R>`: `index(i) = self.inner.index(i)` -/
instance {R V I X : Type} [Region R V I] [HasEqv V] [ItemOps R X] : ItemOps (CollapseSequence R I) X where
  item? r i := ItemOps.item? r.inner i
  borrowAs := ItemOps.borrowAs (R := R)
  intoOwned := ItemOps.intoOwned (R := R)
  cloneOnto := ItemOps.cloneOnto (R := R)

/-- `ConsecutiveIndexPairs<R, O>`:
`index(k) = self.inner.index((self.indices.index(k), self.indices.index(k + 1)))` -/
instance {R V X O : Type} [Region R V (Nat × Nat)] [DenseRegion R] [IdxCont O Nat] [ItemOps R X] :
    ItemOps (ConsecPairs R O) X where
  item? r k :=
    match (IdxCont.iter r.indices)[k]?, (IdxCont.iter r.indices)[k+1]? with
    | some a, some b => ItemOps.item? r.inner (a, b)
    | _, _ => none
  borrowAs := ItemOps.borrowAs (R := R)
  intoOwned := ItemOps.intoOwned (R := R)
  cloneOnto := ItemOps.cloneOnto (R := R)

/-- `FlatStack<R, S>::get(k) = self.region.index(self.indices.index(k))` -/
instance {R V I X S : Type} [Region R V I] [IdxCont S I] [ItemOps R X] : ItemOps (FlatStack R S) X where
  item? fs k :=
    match IdxCont.index fs.indices k with
    | none => none
    | some i => ItemOps.item? fs.region i
  borrowAs := ItemOps.borrowAs (R := R)
  intoOwned := ItemOps.intoOwned (R := R)
  cloneOnto := ItemOps.cloneOnto (R := R)

/-! ### Huffman containers: `ReadItem = Wrapped` -/

/-- `HuffmanContainer<B>` (symbols `Nat`): `index` builds the `Wrapped` (`Huff.Container.item?`);
`impl IntoOwned for Wrapped` -/
instance : ItemOps Huff.Container WrappedOK where
  item? h i := (h.item? i).bind WrappedOK.ofWrapped?
  borrowAs := WrappedOK.borrowAs
  intoOwned := WrappedOK.intoOwned
  cloneOnto := WrappedOK.cloneOnto

/-- `HuffmanContainer<u8>`: the same container, the symbols travelling as bytes (Model/Coded.lean) -/
instance : ItemOps HuffU8 WrappedOK where
  item? h i := ItemOps.item? h.c i
  borrowAs v := WrappedOK.borrowAs (v.map UInt8.toNat)
  intoOwned a := (WrappedOK.intoOwned a).map UInt8.ofNat
  cloneOnto a t := (WrappedOK.cloneOnto a (t.map UInt8.toNat)).map UInt8.ofNat

/-! ### `PartialEq` / `PartialOrd` / `Ord` of read items that are not compared through their owned values:
the Huffman item and slices of such items -/

/-- `a == b` and `a.cmp(b)` (= `a.partial_cmp(b)` for these `Ord` items); `none` = panic -/
class ItemCmp (X : Type) where
  eq : X → X → Option Bool
  cmp : X → X → Option Ordering

/-- `impl PartialEq / PartialOrd / Ord for Wrapped`: the four arms of `Wrapped.eq` / `Wrapped.cmp` -/
instance : ItemCmp WrappedOK where
  eq a b := Wrapped.eq a.1 b.1
  cmp a b := Wrapped.cmp a.1 b.1

/-- `Iterator::eq` on two item iterations: pull from both, compare, stop at the first difference;
`true` iff they run out together -/
def iterEqBy {X : Type} (eq : X → X → Option Bool) : List X → List X → Option Bool
  | [], [] => some true
  | [], _ :: _ => some false
  | _ :: _, [] => some false
  | a :: as, b :: bs =>
    match eq a b with
    | none => none
    | some true => iterEqBy eq as bs
    | some false => some false

/-- `Iterator::cmp` / `Iterator::partial_cmp` on two item iterations: lexicographic -/
def iterCmpBy {X : Type} (cmp : X → X → Option Ordering) : List X → List X → Option Ordering
  | [], [] => some .eq
  | [], _ :: _ => some .lt
  | _ :: _, [] => some .gt
  | a :: as, b :: bs =>
    match cmp a b with
    | none => none
    | some .eq => iterCmpBy cmp as bs
    | some o => some o

/-- `impl PartialEq for ReadSlice { self.iter().eq(*other) }`, `PartialOrd` / `Ord` likewise -/
instance {X : Type} [ItemCmp X] : ItemCmp (List X) where
  eq := iterEqBy ItemCmp.eq
  cmp := iterCmpBy ItemCmp.cmp

end FC
