import FlatModel.Model.Wrappers
/-! `ColumnsRegion<R, O>` (src/impls/columns.rs). -/
namespace FC
open Region

/-- `ColumnsRegion<R, O>`: per-column regions plus, per row, the list of per-column indices stored
as one item of a `ConsecutiveIndexPairs<OwnedRegion<R::Index>, O>`. -/
structure ColumnsRegion (R I O : Type) where
  indices : ConsecPairs (OwnedRegion I) O
  cols : List R

section
variable {R V I O : Type} [Region R V I] [IdxCont O Nat]

/-- `while self.inner.len() < item.len() { self.inner.push(R::default()) }` -/
def padCols (cs : List R) (n : Nat) : List R := cs ++ List.replicate (n - cs.length) (Region.default : R)

/-- `item.iter().zip(&mut self.inner).map(|(value, region)| region.push(value))`, collected -/
def pushRow : List R → List V → Option (List R × List I)
  | cs, [] => some (cs, [])
  | [], _ :: _ => none
  | c :: cs, v :: vs =>
    match push c v with
    | none => none
    | some (c', i) =>
      match pushRow cs vs with
      | none => none
      | some (cs', is) => some (c' :: cs', i :: is)

/-- `ReadColumns`: `index.iter().zip(columns)` mapped through `Region::index` -/
def readRow : List R → List I → Option (List V)
  | _, [] => some []
  | [], _ :: _ => none
  | c :: cs, i :: is =>
    match index c i, readRow cs is with
    | some v, some vs => some (v :: vs)
    | _, _ => none

def RowValid : List R → List I → Prop
  | _, [] => True
  | [], _ :: _ => False
  | c :: cs, i :: is => Valid c i ∧ RowValid cs is

def AcceptsRow : List R → List V → Prop
  | _, [] => True
  | [], _ :: _ => False
  | c :: cs, v :: vs => Accepts c v ∧ AcceptsRow cs vs

@[simp] theorem pushRow_nil (cs : List R) : pushRow cs ([] : List V) = some (cs, []) := by cases cs <;> rfl
@[simp] theorem readRow_nil (cs : List R) : readRow cs ([] : List I) = some ([] : List V) := by cases cs <;> rfl
@[simp] theorem rowValid_nil (cs : List R) : RowValid cs ([] : List I) = True := by cases cs <;> rfl
@[simp] theorem acceptsRow_nil (cs : List R) : AcceptsRow cs ([] : List V) = True := by cases cs <;> rfl

/-- column lists equal up to trailing columns that are indistinguishable from fresh ones -/
def ColsSim (as bs : List R) : Prop :=
  ∀ n, Sim (as.getD n (Region.default : R)) (bs.getD n (Region.default : R))

instance : Region (ColumnsRegion R I O) (List V) Nat where
  default := ⟨Region.default, []⟩
  push r row :=
    match pushRow (padCols r.cols row.length) row with
    | none => none
    | some (cols', is) =>
      match push r.indices is with
      | none => none
      | some (ind', k) => some (⟨ind', cols'⟩, k)
  index r k :=
    match index r.indices k with
    | none => none
    | some is => readRow r.cols is
  clear r := ⟨clear r.indices, r.cols.map clear⟩
  Inv r := Inv r.indices ∧ (∀ c ∈ r.cols, Inv c) ∧
    ∀ k is, Valid r.indices k → index r.indices k = some is → RowValid r.cols is
  Valid r k := Valid r.indices k
  Accepts r row := AcceptsRow (padCols r.cols row.length) row
  Sim a b := Sim a.indices b.indices ∧ ColsSim a.cols b.cols
  same u v := listRel (same (R := R)) u v

end
end FC
