import FlatModel.Model.Huffman
/-! Specification vocabulary for the Huffman container (ghost state only): the byte store as an
MSB-first bit string, the encoder specification `encodeBits`, the lookup semantics `walk` of the nested
decode tables, and the three well-formedness predicates `EncOK`, `TableOK`, `WFStore` that make up the
representation invariant of `Region Huff.Container` (Model/Coded.lean).

Only definitions live here (moved verbatim from Proofs/HuffBits, HuffEnc, HuffDec so that the `Region`
instance can mention them); every lemma about them stays in `Proofs/Huff*.lean`. Nothing here is
called by the executable model. -/
namespace FC.Huff

/-- value of an MSB-first bit string -/
def ofBits : List Bool → Nat
  | [] => 0
  | b :: bs => b.toNat * 2 ^ bs.length + ofBits bs

/-- the low `l` bits of `code`, most significant first -/
def bitsOfCode : (l code : Nat) → List Bool
  | 0, _ => []
  | l + 1, code => code.testBit l :: bitsOfCode l code

/-- all bits of a byte vector, MSB first per byte -/
def allBits (bytes : List Nat) : List Bool := bytes.flatMap (bitsOfCode 8)

/-- the first `n` bits of the byte vector -/
def bitsOf (bytes : List Nat) (n : Nat) : List Bool := (allBits bytes).take n

/-- the `(bytes, bits)` pair of `HuffmanContainer::inner`: exactly enough bytes, and the unused low
bits of a partial last byte are zero -/
def WFStore (bytes : List Nat) (bits : Nat) : Prop :=
  bytes.length = (bits + 7) / 8 ∧ (∀ b ∈ bytes, b < 256) ∧
    (bits % 8 ≠ 0 → bytes.getLast! % 2 ^ (8 - bits % 8) = 0)

def codeOf (c : Code) (s : Nat) : Option (List Bool) := (c.lookup s).map fun p => bitsOfCode p.1 p.2

/-- the specification of the encoder: concatenate the code words -/
def encodeBits (c : Code) : List Nat → Option (List Bool)
  | [] => some []
  | s :: r =>
    match codeOf c s, encodeBits c r with
    | some a, some b => some (a ++ b)
    | _, _ => none

/-- hypotheses on the code table needed by the encoder: every code fits next to < 8 pending bits in a `u64` -/
def EncOK (c : Code) : Prop := ∀ s l code, c.lookup s = some (l, code) → l ≤ 57 ∧ code < 2 ^ l

/-- the table index for the next (up to) 8 bits: zero-padded on the right -/
def idx8 (b : List Bool) : Nat := ofBits ((b ++ List.replicate 8 false).take 8)

/-- walk the nested tables byte by byte: `some (s, l)` = symbol `s` whose code word is the first `l` bits.
Strict: leaf entries must consume 1..8 bits. `n` bounds the nesting depth. -/
def walk : Nat → Array Decode → List Bool → Option (Nat × Nat)
  | 0, _, _ => none
  | n + 1, m, b =>
    match m[idx8 b]! with
    | .void => none
    | .symbol s l => if 1 ≤ l ∧ l ≤ 8 then some (s, l) else none
    | .further t => (walk n t (b.drop 8)).map fun p => (p.1, p.2 + 8)

/-- `c.decode` decodes every code word of `c.encode` (followed by anything) to its symbol and length -/
def TableOK (c : Code) : Prop :=
  ∀ s l code, c.lookup s = some (l, code) → ∀ tail, walk 9 c.decode (bitsOfCode l code ++ tail) = some (s, l)

/-- representation invariant of the coded mode `(huffman, bytes, bits)` -/
def CodedInv (c : Code) (bytes : List Nat) (bits : Nat) : Prop := EncOK c ∧ TableOK c ∧ WFStore bytes bits

/-- the bit range `i` lies within the valid bits and is the concatenation of the code words of `w`
(`FC.C06.Denotes`, Props/C06Bits.lean, is definitionally this) -/
def DenotesBits (c : Code) (bytes : List Nat) (bits : Nat) (i : Nat × Nat) (w : List Nat) : Prop :=
  i.2 ≤ bits ∧ encodeBits c w = some (((allBits bytes).drop i.1).take (i.2 - i.1))

/-- ghost fields of `Region Huff.Container` -/
def Container.Inv (h : Container) : Prop :=
  match h.coded with
  | none => True
  | some (c, bytes, bits) => CodedInv c bytes bits

def Container.Valid (h : Container) (i : Nat × Nat) : Prop :=
  match h.coded with
  | none => i.1 ≤ i.2 ∧ i.2 ≤ h.raw.length
  | some (c, bytes, bits) => ∃ w, DenotesBits c bytes bits i w

def Container.Accepts (h : Container) (v : List Nat) : Prop :=
  match h.coded with
  | none => True
  | some (c, _, _) => ∀ s ∈ v, (c.lookup s).isSome

end FC.Huff
