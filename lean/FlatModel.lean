import FlatModel.Generated.Catalogue
import FlatModel.Generated.Covered
import FlatModel.Props.C01
import FlatModel.Props.C03
import FlatModel.Props.C05
import FlatModel.Props.C11
import FlatModel.Props.C19
