#!/bin/bash
# Build everything the checks need, offline, from files on disk.
set -e
cd "$(dirname "$0")"
export CARGO_NET_OFFLINE=true
python3 tools/gen_catalogue.py
python3 tools/gen_facts.py
(cd lean && lake build FlatModel fcmodel)
(cd harness && cargo build --offline --quiet && cargo build --offline --quiet --profile wrapping)
echo setup-ok
