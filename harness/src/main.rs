//! `fcx`: executes line-protocol scripts against the real crate built from /repo's working tree.
//! Replies go to the file named by argv[1] (the crate itself prints to stdout in places).
mod alloc;
mod entry;
mod generated;
mod val;

use entry::{Entry, IdxCaps, IdxEntry, StrideEntry};
use flatcontainer::impls::index::{IndexList, IndexOptimized};
use std::collections::HashMap;
use std::io::{BufRead, Write};
use val::Val;

#[global_allocator]
static GLOBAL: alloc::Counting = alloc::Counting;

macro_rules! idx_caps { ($($t:ty),*) => {$(
    impl IdxCaps for $t {
        fn ser(&self) -> Option<String> { serde_json::to_string(self).ok() }
        fn de(text: &str) -> Option<Self> { serde_json::from_str(text).ok() }
    }
)*} }
idx_caps!(Vec<usize>, IndexList<Vec<u32>, Vec<u64>>, IndexOptimized);

fn new_idx(entry: &str) -> Option<Box<dyn IdxEntry>> {
    Some(match entry {
        "idx:vec" => Box::new(Vec::<usize>::new()),
        "idx:list" => Box::new(IndexList::<Vec<u32>, Vec<u64>>::default()),
        "idx:opt" => Box::new(<IndexOptimized>::default()),
        _ => return None,
    })
}

struct World {
    /// handles whose last push was refused: the crate gives no guarantee about their state
    poisoned: std::collections::HashSet<String>,
    regions: HashMap<String, Box<dyn Entry>>,
    idxs: HashMap<String, Box<dyn IdxEntry>>,
    strides: HashMap<String, StrideEntry>,
}

fn ord(s: &str) -> Option<usize> {
    s.strip_prefix('#')?.parse().ok()
}
fn repr(s: &str) -> Option<bool> {
    match s {
        "backed" => Some(false),
        "borrowed" => Some(true),
        _ => None,
    }
}

impl World {
    fn step(&mut self, line: &str) -> String {
        let parts: Vec<&str> = line.trim().split(' ').collect();
        // which words of the line name existing handles that are read or mutated
        let used: &[&str] = match parts.as_slice() {
            ["new", ..] | ["reset"] | ["forms", ..] | ["sizeof", ..] | ["allocs"] => &[],
            ["merge", _, _, srcs @ ..] => srcs,
            ["clone", _, h] | ["serde", _, h] => std::slice::from_ref(h),
            ["cmp", h1, _, _, h2, _, _] => if self.poisoned.contains(*h1) { std::slice::from_ref(h1) } else { std::slice::from_ref(h2) },
            ["x", h, ..] => std::slice::from_ref(h),
            [_, rest @ ..] => rest,
            [] => &[],
        };
        if used.iter().any(|h| self.poisoned.contains(*h)) {
            // whatever this operation would have created or mutated is unknown now
            if let ["merge" | "clone" | "serde" | "clone_from" | "pushitem" | "reserve_regions", h, ..] = parts.as_slice() {
                self.poisoned.insert(h.to_string());
            }
            return "poisoned".into();
        }
        match parts.as_slice() {
            ["new", h, ..] | ["merge", h, ..] | ["clone", h, _] | ["serde", h, _] => { self.poisoned.remove(*h); }
            _ => {}
        }
        let reply = self.step_inner(&parts);
        if reply == "refused" {
            if let [_, h, ..] = parts.as_slice() { self.poisoned.insert(h.to_string()); }
        }
        reply
    }
    fn step_inner(&mut self, parts: &[&str]) -> String {
        match parts {
            ["reset"] => {
                self.poisoned.clear();
                self.regions.clear();
                self.idxs.clear();
                self.strides.clear();
                let _ = alloc::take();
                "ok".into()
            }
            ["new", h, "stride"] => {
                self.strides.insert(h.to_string(), StrideEntry::default());
                "ok".into()
            }
            ["new", h, entry] => {
                if let Some(r) = generated::new_entry(entry) {
                    self.regions.insert(h.to_string(), r);
                    "ok".into()
                } else if let Some(c) = new_idx(entry) {
                    self.idxs.insert(h.to_string(), c);
                    "ok".into()
                } else {
                    "bad-entry".into()
                }
            }
            ["push", h, form, v] => match (self.regions.get_mut(*h), Val::parse(v)) {
                (Some(r), Some(v)) => r.push(form, &v),
                _ => "bad-op".into(),
            },
            ["read", h, k] => match (self.regions.get(*h), ord(k)) {
                (Some(r), Some(k)) => r.read(k),
                _ => "bad-op".into(),
            },
            ["readall", h] => match self.regions.get(*h) {
                Some(r) => {
                    let n = r.issued();
                    let mut out = String::from("all");
                    for k in 0..n {
                        out.push(' ');
                        out.push_str(&r.read(k).replace(' ', "="));
                    }
                    out
                }
                None => "bad-op".into(),
            },
            ["item", h, k, rp, op] => match (self.regions.get(*h), ord(k), repr(rp)) {
                (Some(r), Some(k), Some(b)) => r.item(k, b, op, ""),
                _ => "bad-op".into(),
            },
            ["item", h, k, rp, op, arg] => match (self.regions.get(*h), ord(k), repr(rp)) {
                (Some(r), Some(k), Some(b)) => r.item(k, b, op, arg),
                _ => "bad-op".into(),
            },
            ["clear", h] => {
                if let Some(r) = self.regions.get_mut(*h) {
                    r.clear()
                } else if let Some(c) = self.idxs.get_mut(*h) {
                    c.clear();
                    "ok".into()
                } else {
                    "bad-op".into()
                }
            }
            ["reserve_items", h, form, v] => match (self.regions.get_mut(*h), Val::parse(v)) {
                (Some(r), Some(v)) => r.reserve_items(form, &v),
                _ => "bad-op".into(),
            },
            ["reserve_regions", h, srcs @ ..] => {
                let Some(mut r) = self.regions.remove(*h) else { return "bad-op".into() };
                let reply = {
                    // a region may be asked to reserve for itself: use a clone as the source then
                    let selfclone = r.clone_box();
                    let ss: Option<Vec<&dyn Entry>> = srcs.iter().map(|s| if s == h { selfclone.as_deref() } else { self.regions.get(*s).map(|b| &**b) }).collect();
                    match ss {
                        Some(ss) => r.reserve_regions(&ss),
                        None => "bad-op".into(),
                    }
                };
                self.regions.insert(h.to_string(), r);
                reply
            }
            ["merge", h, entry, srcs @ ..] => {
                let Some(proto) = generated::new_entry(entry) else { return "bad-entry".into() };
                let ss: Option<Vec<&dyn Entry>> = srcs.iter().map(|s| self.regions.get(*s).map(|b| &**b)).collect();
                let Some(ss) = ss else { return "bad-op".into() };
                match proto.merge(&ss) {
                    Some(m) => {
                        self.regions.insert(h.to_string(), m);
                        "ok".into()
                    }
                    None => "panic".into(),
                }
            }
            ["clone", hnew, h] => match self.regions.get(*h) {
                Some(r) => match r.clone_box() {
                    Some(c) => {
                        self.regions.insert(hnew.to_string(), c);
                        "ok".into()
                    }
                    None => "na".into(),
                },
                None => match self.idxs.get(*h) {
                    Some(c) => {
                        let c = c.clone_box();
                        self.idxs.insert(hnew.to_string(), c);
                        "ok".into()
                    }
                    None => "bad-op".into(),
                },
            },
            ["clone_from", hdst, hsrc] => {
                let Some(mut d) = self.regions.remove(*hdst) else { return "bad-op".into() };
                let reply = match self.regions.get(*hsrc) {
                    Some(s) => d.clone_from_entry(&**s),
                    None => "bad-op".into(),
                };
                self.regions.insert(hdst.to_string(), d);
                reply
            }
            ["ser", h] => match self.regions.get(*h) {
                Some(r) => r.ser(),
                None => "bad-op".into(),
            },
            // `serde hnew h`: serialise h, deserialise into hnew
            ["serde", hnew, h] => match self.regions.get(*h) {
                Some(r) => {
                    let t = r.ser();
                    match t.strip_prefix("tree ") {
                        Some(text) => match r.de(text) {
                            Some(n) => {
                                self.regions.insert(hnew.to_string(), n);
                                "ok".into()
                            }
                            None => "de-failed".into(),
                        },
                        None => t,
                    }
                }
                None => match self.idxs.get(*h) {
                    Some(c) => {
                        let mut c = c.clone_box();
                        let r = c.ser_de();
                        self.idxs.insert(hnew.to_string(), c);
                        r
                    }
                    None => "bad-op".into(),
                },
            },
            ["heap", h] => match self.regions.get(*h) {
                Some(r) => r.heap(),
                None => "bad-op".into(),
            },
            ["allocs"] => format!("allocs {}", alloc::take()),
            ["pushitem", hdst, hsrc, k, rp] => {
                let (Some(k), Some(b)) = (ord(k), repr(rp)) else { return "bad-op".into() };
                let Some(mut d) = self.regions.remove(*hdst) else { return "bad-op".into() };
                let reply = if hdst == hsrc {
                    match d.clone_box() {
                        Some(c) => d.pushitem(&*c, k, b),
                        None => "na".into(),
                    }
                } else {
                    match self.regions.get(*hsrc) {
                        Some(s) => d.pushitem(&**s, k, b),
                        None => "bad-op".into(),
                    }
                };
                self.regions.insert(hdst.to_string(), d);
                reply
            }
            ["cmp", h1, k1, r1, h2, k2, r2] => {
                let (Some(k1), Some(b1), Some(k2), Some(b2)) = (ord(k1), repr(r1), ord(k2), repr(r2)) else { return "bad-op".into() };
                match (self.regions.get(*h1), self.regions.get(*h2)) {
                    (Some(a), Some(b)) => a.cmp(k1, b1, &**b, k2, b2),
                    _ => "bad-op".into(),
                }
            }
            ["x", h, op, args @ ..] => match self.regions.get_mut(*h) {
                Some(r) => r.extra(op, args),
                None => "bad-op".into(),
            },
            ["forms", entry] => match generated::forms_of(entry) {
                Some(fs) => format!("forms {}", fs.join(" ")),
                None => "bad-entry".into(),
            },
            ["sizeof", entry] => match generated::index_size(entry) {
                Some(n) => format!("size {}", n),
                None => "bad-entry".into(),
            },
            ["ipush", h, x] => match (self.idxs.get_mut(*h), x.parse::<usize>()) {
                (Some(c), Ok(x)) => {
                    if c.push(x) {
                        "ok".into()
                    } else {
                        "panic".into()
                    }
                }
                _ => "bad-op".into(),
            },
            ["iextend", h, xs] => match (self.idxs.get_mut(*h), Val::parse(xs)) {
                (Some(c), Some(Val::List(xs))) => {
                    let v: Vec<usize> = xs.iter().filter_map(|x| if let Val::Nat(n) = x { Some(*n as usize) } else { None }).collect();
                    if c.extend(v) {
                        "ok".into()
                    } else {
                        "panic".into()
                    }
                }
                _ => "bad-op".into(),
            },
            ["ireserve", h, n] => match (self.idxs.get_mut(*h), n.parse::<usize>()) {
                (Some(c), Ok(n)) => {
                    if c.reserve(n) {
                        "ok".into()
                    } else {
                        "panic".into()
                    }
                }
                _ => "bad-op".into(),
            },
            ["icap", h] => match self.idxs.get(*h) {
                Some(c) => c.caps(),
                None => "bad-op".into(),
            },
            ["iobs", h] => match self.idxs.get(*h) {
                Some(c) => c.obs(),
                None => "bad-op".into(),
            },
            ["spush", h, x] => match (self.strides.get_mut(*h), x.parse::<usize>()) {
                (Some(s), Ok(x)) => s.push(x),
                _ => "bad-op".into(),
            },
            ["sobs", h] => match self.strides.get(*h) {
                Some(s) => s.obs(),
                None => "bad-op".into(),
            },
            _ => "bad-op".into(),
        }
    }
}

fn main() {
    if std::env::var("FCX_VERBOSE").is_err() { std::panic::set_hook(Box::new(|_| {})); }
    let path = std::env::args().nth(1).expect("usage: fcx <reply-file> < script");
    let mut out = std::io::BufWriter::new(std::fs::File::create(path).unwrap());
    let mut w = World { poisoned: Default::default(), regions: HashMap::new(), idxs: HashMap::new(), strides: HashMap::new() };
    let stdin = std::io::stdin();
    for line in stdin.lock().lines() {
        let line = line.unwrap();
        if line.is_empty() || line.starts_with('#') {
            writeln!(out, "{}", line).unwrap();
            continue;
        }
        let reply = w.step(&line);
        writeln!(out, "{}", reply).unwrap();
        // a crash of the crate must not lose the replies so far
        out.flush().unwrap();
    }
}
