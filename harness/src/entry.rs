//! Type-erased handles over the real crate: regions, FlatStacks, index containers.
use crate::alloc;
use crate::val::{FromVal, RItem, Render, ToVal, Val};
use flatcontainer::impls::index::{IndexContainer, Stride};
use flatcontainer::impls::storage::Storage;
use flatcontainer::{FlatStack, IntoOwned, Push, Region};
use std::any::Any;
use std::panic::{catch_unwind, AssertUnwindSafe};

pub fn guard<T>(f: impl FnOnce() -> T) -> Option<T> {
    catch_unwind(AssertUnwindSafe(f)).ok()
}

/// an iterator whose size hint is honest but useless: at least 0, at most `usize::MAX`
pub struct HugeUpper<I>(pub I);
impl<I: Iterator> Iterator for HugeUpper<I> {
    type Item = I::Item;
    fn next(&mut self) -> Option<I::Item> {
        self.0.next()
    }
    fn size_hint(&self) -> (usize, Option<usize>) {
        (0, Some(usize::MAX))
    }
}

/// where a value in some input form goes: a region (`push`) or a FlatStack (`copy` / `extend` / `from_iter`)
pub trait Sink<R: Region>: Sized {
    type Out;
    fn put<T>(&mut self, x: T) -> Self::Out
    where
        R: Push<T>;
    fn put_all<T>(&mut self, xs: Vec<T>)
    where
        R: Push<T>;
    fn from_all<T>(xs: Vec<T>) -> Self
    where
        R: Push<T>;
    /// the same through an iterator that gives no useful size hint (lower bound 0)
    fn put_all_loose<T>(&mut self, xs: Vec<T>)
    where
        R: Push<T>,
    {
        self.put_all(xs)
    }
    fn from_all_loose<T>(xs: Vec<T>) -> Self
    where
        R: Push<T>,
    {
        Self::from_all(xs)
    }
}

impl<R: Region> Sink<R> for R {
    type Out = R::Index;
    fn put<T>(&mut self, x: T) -> R::Index
    where
        R: Push<T>,
    {
        let _w = alloc::window();
        Push::push(self, x)
    }
    fn put_all<T>(&mut self, xs: Vec<T>)
    where
        R: Push<T>,
    {
        for x in xs {
            let _ = Push::push(self, x);
        }
    }
    fn from_all<T>(xs: Vec<T>) -> Self
    where
        R: Push<T>,
    {
        let mut r = R::default();
        r.put_all(xs);
        r
    }
}

impl<R: Region, S: IndexContainer<R::Index>> Sink<R> for FlatStack<R, S> {
    type Out = ();
    fn put<T>(&mut self, x: T)
    where
        R: Push<T>,
    {
        let _w = alloc::window();
        self.copy(x)
    }
    fn put_all<T>(&mut self, xs: Vec<T>)
    where
        R: Push<T>,
    {
        let _w = alloc::window();
        self.extend(xs)
    }
    fn from_all<T>(xs: Vec<T>) -> Self
    where
        R: Push<T>,
    {
        xs.into_iter().collect()
    }
    fn put_all_loose<T>(&mut self, xs: Vec<T>)
    where
        R: Push<T>,
    {
        // two honest but unhelpful hints: (0, Some(n)) from a filter, (0, Some(usize::MAX)) from an adaptor that
        // only knows "finite" (an upper bound may be arbitrarily loose)
        let _w = alloc::window();
        if xs.len() % 2 == 0 {
            self.extend(xs.into_iter().filter(|_| true))
        } else {
            self.extend(HugeUpper(xs.into_iter()))
        }
    }
    fn from_all_loose<T>(xs: Vec<T>) -> Self
    where
        R: Push<T>,
    {
        if xs.len() % 2 == 0 {
            xs.into_iter().filter(|_| true).collect()
        } else {
            HugeUpper(xs.into_iter()).collect()
        }
    }
}

/// Per-catalogue-entry code (generated): input forms, serde, item comparison.
pub trait Cat: Region + 'static {
    fn try_clone(&self) -> Option<Self>;
    fn try_clone_from(&mut self, src: &Self) -> Option<()>;
    const FORMS: &'static [&'static str];
    /// `None`: unknown form
    fn push_form<K: Sink<Self>>(sink: &mut K, form: &str, w: &Self::Owned) -> Option<K::Out>;
    fn push_all_form<K: Sink<Self>>(sink: &mut K, form: &str, ws: &[Self::Owned]) -> Option<()>;
    fn from_all_form<K: Sink<Self>>(form: &str, ws: &[Self::Owned]) -> Option<K>;
    fn push_all_loose_form<K: Sink<Self>>(sink: &mut K, form: &str, ws: &[Self::Owned]) -> Option<()>;
    fn from_all_loose_form<K: Sink<Self>>(form: &str, ws: &[Self::Owned]) -> Option<K>;
    fn reserve_form(&mut self, form: &str, ws: &[Self::Owned], loose: bool) -> Option<()>;
    fn push_item(&mut self, src: &Self, index: Self::Index, borrowed: bool) -> Option<Self::Index>;
    fn ser(&self) -> Option<String>;
    fn de(text: &str) -> Option<Self>;
    /// `(a == b, a.cmp(b), a.partial_cmp(b))`
    fn cmp_items(a: &Self, ia: Self::Index, ba: bool, b: &Self, ib: Self::Index, bb: bool) -> Option<(bool, i8, Option<i8>)>;
}

pub trait Entry: Any {
    fn as_any(&self) -> &dyn Any;
    fn push(&mut self, form: &str, v: &Val) -> String;
    fn read(&self, ord: usize) -> String;
    fn item(&self, ord: usize, borrowed: bool, op: &str, arg: &str) -> String;
    fn clear(&mut self) -> String;
    fn reserve_items(&mut self, form: &str, vs: &Val) -> String;
    fn reserve_regions(&mut self, srcs: &[&dyn Entry]) -> String;
    fn merge(&self, srcs: &[&dyn Entry]) -> Option<Box<dyn Entry>>;
    fn clone_box(&self) -> Option<Box<dyn Entry>>;
    fn clone_from_entry(&mut self, src: &dyn Entry) -> String;
    fn ser(&self) -> String;
    fn de(&self, text: &str) -> Option<Box<dyn Entry>>;
    fn heap(&self) -> String;
    fn pushitem(&mut self, src: &dyn Entry, ord: usize, borrowed: bool) -> String;
    fn cmp(&self, ord: usize, borrowed: bool, other: &dyn Entry, ord2: usize, borrowed2: bool) -> String;
    fn extra(&mut self, _op: &str, _args: &[&str]) -> String {
        "bad-op".into()
    }
    fn issued(&self) -> usize;
}

fn pairs(f: impl FnOnce(&mut dyn FnMut(usize, usize))) -> String {
    let mut out = vec![];
    let r = guard(|| f(&mut |u, c| out.push((u, c))));
    match r {
        Some(()) => format!("pairs [{}]", out.iter().map(|(u, c)| format!("({},{})", u, c)).collect::<Vec<_>>().join(",")),
        None => "panic".into(),
    }
}

pub struct Reg<R: Cat> {
    pub r: R,
    pub issued: Vec<R::Index>,
}

impl<R: Cat> Reg<R> {
    pub fn boxed() -> Box<dyn Entry>
    where
        Reg<R>: Entry,
    {
        Box::new(Reg::<R> { r: R::default(), issued: vec![] })
    }
}

fn item_op<'a, R>(item: R::ReadItem<'a>, op: &str, arg: &str) -> String
where
    R: RItem + 'a,
    R::ReadItem<'a>: Copy,
    R::Owned: ToVal + FromVal,
{
    match op {
        "render" => format!("item {}", R::render(item).render()),
        "owned" => format!("val {}", item.into_owned().to_val().render()),
        "cloneonto" => {
            let Some(mut t) = Val::parse(arg).and_then(|v| R::Owned::from_val(&v)) else { return "bad-value".into() };
            item.clone_onto(&mut t);
            format!("val {}", t.to_val().render())
        }
        _ => {
            let n: usize = arg.parse().unwrap_or(0);
            match R::acc(&item, op, n) {
                Some(v) => format!("val {}", v.render()),
                None => "na".into(),
            }
        }
    }
}

impl<R> Entry for Reg<R>
where
    R: Cat + RItem,
    R::Owned: FromVal + ToVal + Clone,
    R::Index: Render,
    for<'a> R::ReadItem<'a>: Copy,
{
    fn as_any(&self) -> &dyn Any {
        self
    }
    fn issued(&self) -> usize {
        self.issued.len()
    }
    fn push(&mut self, form: &str, v: &Val) -> String {
        let Some(w) = R::Owned::from_val(v) else { return "bad-value".into() };
        match guard(|| R::push_form(&mut self.r, form, &w)) {
            Some(Some(i)) => {
                self.issued.push(i);
                format!("idx {}", i.render().render())
            }
            Some(None) => "bad-form".into(),
            None => "refused".into(),
        }
    }
    fn read(&self, ord: usize) -> String {
        let Some(i) = self.issued.get(ord) else { return "bad-ordinal".into() };
        match guard(|| R::render(self.r.index(*i))) {
            Some(v) => format!("item {}", v.render()),
            None => "panic".into(),
        }
    }
    fn item(&self, ord: usize, borrowed: bool, op: &str, arg: &str) -> String {
        let Some(i) = self.issued.get(ord) else { return "bad-ordinal".into() };
        let r = guard(|| {
            if op == "reborrow" {
                return format!("item {}", R::render(R::reborrow(self.r.index(*i))).render());
            }
            if borrowed {
                let owned = self.r.index(*i).into_owned();
                let item = <R::ReadItem<'_> as IntoOwned>::borrow_as(&owned);
                item_op::<R>(item, op, arg)
            } else {
                item_op::<R>(self.r.index(*i), op, arg)
            }
        });
        r.unwrap_or_else(|| "panic".into())
    }
    fn clear(&mut self) -> String {
        match guard(|| self.r.clear()) {
            Some(()) => {
                self.issued.clear();
                "ok".into()
            }
            None => "panic".into(),
        }
    }
    fn reserve_items(&mut self, form: &str, vs: &Val) -> String {
        let Val::List(xs) = vs else { return "bad-value".into() };
        let Some(ws) = xs.iter().map(R::Owned::from_val).collect::<Option<Vec<_>>>() else { return "bad-value".into() };
        // a trailing `~` asks for the announcement through an iterator without a useful size hint
        let (form, loose) = match form.strip_suffix('~') {
            Some(f) => (f, true),
            None => (form, false),
        };
        match guard(|| self.r.reserve_form(form, &ws, loose)) {
            Some(Some(())) => "ok".into(),
            Some(None) => "bad-form".into(),
            None => "panic".into(),
        }
    }
    fn reserve_regions(&mut self, srcs: &[&dyn Entry]) -> String {
        let Some(rs) = srcs.iter().map(|e| e.as_any().downcast_ref::<Reg<R>>().map(|x| &x.r)).collect::<Option<Vec<_>>>() else {
            return "bad-handle".into();
        };
        match guard(|| self.r.reserve_regions(rs.as_slice().iter().copied())) {
            Some(()) => "ok".into(),
            None => "panic".into(),
        }
    }
    fn merge(&self, srcs: &[&dyn Entry]) -> Option<Box<dyn Entry>> {
        let rs = srcs.iter().map(|e| e.as_any().downcast_ref::<Reg<R>>().map(|x| &x.r)).collect::<Option<Vec<_>>>()?;
        let r = guard(|| R::merge_regions(rs.as_slice().iter().copied()))?;
        Some(Box::new(Reg::<R> { r, issued: vec![] }))
    }
    fn clone_box(&self) -> Option<Box<dyn Entry>> {
        Some(Box::new(Reg::<R> { r: self.r.try_clone()?, issued: self.issued.clone() }))
    }
    fn clone_from_entry(&mut self, src: &dyn Entry) -> String {
        let Some(s) = src.as_any().downcast_ref::<Reg<R>>() else { return "bad-handle".into() };
        match guard(|| self.r.try_clone_from(&s.r)) {
            Some(Some(())) => {
                self.issued = s.issued.clone();
                "ok".into()
            }
            Some(None) => "na".into(),
            None => "panic".into(),
        }
    }
    fn ser(&self) -> String {
        match guard(|| self.r.ser()) {
            Some(Some(t)) => format!("tree {}", t),
            Some(None) => "na".into(),
            None => "panic".into(),
        }
    }
    fn de(&self, text: &str) -> Option<Box<dyn Entry>> {
        let r = guard(|| R::de(text))??;
        Some(Box::new(Reg::<R> { r, issued: self.issued.clone() }))
    }
    fn heap(&self) -> String {
        pairs(|cb| self.r.heap_size(cb))
    }
    fn pushitem(&mut self, src: &dyn Entry, ord: usize, borrowed: bool) -> String {
        let Some(s) = src.as_any().downcast_ref::<Reg<R>>() else { return "bad-handle".into() };
        let Some(i) = s.issued.get(ord) else { return "bad-ordinal".into() };
        match guard(|| self.r.push_item(&s.r, *i, borrowed)) {
            Some(Some(j)) => {
                self.issued.push(j);
                format!("idx {}", j.render().render())
            }
            Some(None) => "na".into(),
            None => "refused".into(),
        }
    }
    fn cmp(&self, ord: usize, borrowed: bool, other: &dyn Entry, ord2: usize, borrowed2: bool) -> String {
        let Some(o) = other.as_any().downcast_ref::<Reg<R>>() else { return "bad-handle".into() };
        let (Some(i), Some(j)) = (self.issued.get(ord), o.issued.get(ord2)) else { return "bad-ordinal".into() };
        match guard(|| R::cmp_items(&self.r, *i, borrowed, &o.r, *j, borrowed2)) {
            Some(Some((e, c, p))) => format!("cmp {} {} {}", e as u8, c, p.map_or("none".to_string(), |x| x.to_string())),
            Some(None) => "na".into(),
            None => "panic".into(),
        }
    }
}

/// A FlatStack behind the same interface: `push` is `copy`, ordinal k is position k.
pub struct Stack<R: Cat, S> {
    pub fs: FlatStack<R, S>,
}

pub trait StackCaps: Sized {
    fn try_clone(&self) -> Option<Self>;
    fn try_clone_from(&mut self, src: &Self) -> Option<()>;
    fn ser(&self) -> Option<String>;
    fn de(text: &str) -> Option<Self>;
}

impl<R, S> Entry for Stack<R, S>
where
    R: Cat + RItem,
    S: IndexContainer<R::Index> + 'static,
    FlatStack<R, S>: StackCaps,
    R::Owned: FromVal + ToVal + Clone,
    R::Index: Render,
    for<'a> R::ReadItem<'a>: Copy,
{
    fn as_any(&self) -> &dyn Any {
        self
    }
    fn issued(&self) -> usize {
        self.fs.len()
    }
    fn push(&mut self, form: &str, v: &Val) -> String {
        let Some(w) = R::Owned::from_val(v) else { return "bad-value".into() };
        match guard(|| R::push_form(&mut self.fs, form, &w)) {
            Some(Some(())) => format!("idx {}", self.fs.len() - 1),
            Some(None) => "bad-form".into(),
            None => "refused".into(),
        }
    }
    fn read(&self, ord: usize) -> String {
        match guard(|| R::render(self.fs.get(ord))) {
            Some(v) => format!("item {}", v.render()),
            None => "panic".into(),
        }
    }
    fn item(&self, ord: usize, borrowed: bool, op: &str, arg: &str) -> String {
        let r = guard(|| {
            if borrowed {
                let owned = self.fs.get(ord).into_owned();
                let item = <R::ReadItem<'_> as IntoOwned>::borrow_as(&owned);
                item_op::<R>(item, op, arg)
            } else {
                item_op::<R>(self.fs.get(ord), op, arg)
            }
        });
        r.unwrap_or_else(|| "panic".into())
    }
    fn clear(&mut self) -> String {
        match guard(|| self.fs.clear()) {
            Some(()) => "ok".into(),
            None => "panic".into(),
        }
    }
    fn reserve_items(&mut self, form: &str, vs: &Val) -> String {
        // FlatStack::reserve_items forwards to the region; the generated code reserves on a region,
        // so go through a scratch swap of the region is not possible (private field): use the API.
        let _ = (form, vs);
        "na".into()
    }
    fn reserve_regions(&mut self, _srcs: &[&dyn Entry]) -> String {
        "na".into()
    }
    fn merge(&self, srcs: &[&dyn Entry]) -> Option<Box<dyn Entry>> {
        let rs = srcs.iter().map(|e| e.as_any().downcast_ref::<Stack<R, S>>().map(|x| &x.fs)).collect::<Option<Vec<_>>>()?;
        let fs = guard(|| FlatStack::<R, S>::merge_capacity(rs.as_slice().iter().copied()))?;
        Some(Box::new(Stack::<R, S> { fs }))
    }
    fn clone_box(&self) -> Option<Box<dyn Entry>> {
        self.fs.try_clone().map(|fs| Box::new(Stack::<R, S> { fs }) as Box<dyn Entry>)
    }
    fn clone_from_entry(&mut self, src: &dyn Entry) -> String {
        let Some(s) = src.as_any().downcast_ref::<Stack<R, S>>() else { return "bad-handle".into() };
        match guard(|| self.fs.try_clone_from(&s.fs)) {
            Some(Some(())) => "ok".into(),
            Some(None) => "na".into(),
            None => "panic".into(),
        }
    }
    fn ser(&self) -> String {
        match guard(|| self.fs.ser()) {
            Some(Some(t)) => format!("tree {}", t),
            Some(None) => "na".into(),
            None => "panic".into(),
        }
    }
    fn de(&self, text: &str) -> Option<Box<dyn Entry>> {
        let fs = guard(|| <FlatStack<R, S> as StackCaps>::de(text))??;
        Some(Box::new(Stack::<R, S> { fs }))
    }
    fn heap(&self) -> String {
        pairs(|cb| self.fs.heap_size(cb))
    }
    fn pushitem(&mut self, src: &dyn Entry, ord: usize, _borrowed: bool) -> String {
        let _ = (src, ord);
        "na".into()
    }
    fn cmp(&self, _ord: usize, _b: bool, _other: &dyn Entry, _ord2: usize, _b2: bool) -> String {
        "na".into()
    }
    fn extra(&mut self, op: &str, args: &[&str]) -> String {
        let r = guard(|| match (op, args) {
            ("slen", []) => format!("val {}", self.fs.len()),
            ("sisempty", []) => format!("val {}", self.fs.is_empty() as u8),
            ("sreserve", [n]) => {
                self.fs.reserve(n.parse().unwrap_or(0));
                "ok".into()
            }
            ("siter", []) => {
                // iteration, a cloned iterator advanced half way, and size hints
                let items: Vec<Val> = self.fs.iter().map(|x| R::render(x)).collect();
                let mut it = self.fs.iter();
                let (lo, hi) = it.size_hint();
                let n = items.len();
                let mut hints_ok = lo <= n && hi.map_or(true, |h| n <= h);
                for _ in 0..n / 2 {
                    let _ = it.next();
                }
                let (lo2, hi2) = it.size_hint();
                let rem = n - n / 2;
                hints_ok &= lo2 <= rem && hi2.map_or(true, |h| rem <= h);
                let cl = it.clone();
                let rest_a: Vec<Val> = it.map(|x| R::render(x)).collect();
                let rest_b: Vec<Val> = cl.map(|x| R::render(x)).collect();
                let via_ref: Vec<Val> = (&self.fs).into_iter().map(|x| R::render(x)).collect();
                let audit = crate::val::iter_audit(|| self.fs.iter(), |x| R::render(x), &items);
                let consistent = rest_a == rest_b && rest_a[..] == items[n / 2..] && via_ref == items && audit.is_none();
                format!("iter {} hints {} clone {}", Val::List(items).render(), hints_ok as u8, consistent as u8)
            }
            ("sextend", [form, v]) | ("sfrom", [form, v]) | ("sextendl", [form, v]) | ("sfroml", [form, v]) => {
                let Some(Val::List(xs)) = Val::parse(v) else { return "bad-value".into() };
                let Some(ws) = xs.iter().map(R::Owned::from_val).collect::<Option<Vec<_>>>() else { return "bad-value".into() };
                if op.starts_with("sextend") {
                    let r = if op == "sextend" { R::push_all_form(&mut self.fs, form, &ws) } else { R::push_all_loose_form(&mut self.fs, form, &ws) };
                    match r {
                        Some(()) => "ok".into(),
                        None => "bad-form".into(),
                    }
                } else {
                    let r = if op == "sfrom" { R::from_all_form::<FlatStack<R, S>>(form, &ws) } else { R::from_all_loose_form::<FlatStack<R, S>>(form, &ws) };
                    match r {
                        Some(fs) => {
                            self.fs = fs;
                            "ok".into()
                        }
                        None => "bad-form".into(),
                    }
                }
            }
            ("swithcap", [n]) => {
                self.fs = FlatStack::with_capacity(n.parse().unwrap_or(0));
                "ok".into()
            }
            _ => "bad-op".into(),
        });
        r.unwrap_or_else(|| "panic".into())
    }
}

/// bare index containers over usize (C05, C19)
pub trait IdxEntry {
    fn push(&mut self, x: usize) -> bool;
    fn extend(&mut self, xs: Vec<usize>) -> bool;
    fn clear(&mut self);
    fn obs(&self) -> String;
    fn reserve(&mut self, n: usize) -> bool;
    fn caps(&self) -> String;
    fn ser_de(&mut self) -> String;
    fn clone_box(&self) -> Box<dyn IdxEntry>;
}
pub trait IdxCaps: Sized {
    fn ser(&self) -> Option<String>;
    fn de(text: &str) -> Option<Self>;
}
impl<C: IndexContainer<usize> + IdxCaps + Clone + 'static> IdxEntry for C {
    fn push(&mut self, x: usize) -> bool {
        guard(|| IndexContainer::push(self, x)).is_some()
    }
    fn extend(&mut self, xs: Vec<usize>) -> bool {
        guard(|| IndexContainer::extend(self, xs)).is_some()
    }
    fn clear(&mut self) {
        Storage::clear(self)
    }
    fn obs(&self) -> String {
        let r = guard(|| {
            let len = Storage::len(self);
            let iter: Vec<usize> = self.iter().collect();
            if let Some(m) = crate::val::iter_audit(|| self.iter(), |x| x, &iter) {
                return format!("iter-inconsistent {}", m);
            }
            let index: Vec<String> = (0..=len)
                .map(|i| match guard(|| self.index(i)) {
                    Some(x) => x.to_string(),
                    None => "panic".into(),
                })
                .collect();
            let mut used = vec![];
            self.heap_size(|u, _| used.push(u));
            format!("len {} empty {} iter {:?} index [{}] used {:?}", len, Storage::is_empty(self), iter, index.join(", "), used)
        });
        r.unwrap_or_else(|| "panic".into())
    }
    fn reserve(&mut self, n: usize) -> bool {
        guard(|| Storage::reserve(self, n)).is_some()
    }
    fn caps(&self) -> String {
        let mut caps = vec![];
        self.heap_size(|_, c| caps.push(c));
        format!("cap {:?}", caps)
    }
    fn ser_de(&mut self) -> String {
        match self.ser().and_then(|t| C::de(&t)) {
            Some(c) => {
                *self = c;
                "ok".into()
            }
            None => "na".into(),
        }
    }
    fn clone_box(&self) -> Box<dyn IdxEntry> {
        Box::new(self.clone())
    }
}

/// bare `Stride` (C05: accepts exactly the documented pattern, untouched on rejection)
#[derive(Default)]
pub struct StrideEntry(pub Stride);
impl StrideEntry {
    pub fn push(&mut self, x: usize) -> String {
        let before = self.0;
        match guard(|| self.0.push(x)) {
            Some(true) => "accepted".into(),
            Some(false) => {
                if self.0 == before {
                    "rejected".into()
                } else {
                    "rejected-but-changed".into()
                }
            }
            None => "panic".into(),
        }
    }
    pub fn obs(&self) -> String {
        let len = self.0.len();
        let iter: Vec<usize> = self.0.iter().collect();
        if let Some(m) = crate::val::iter_audit(|| self.0.iter(), |x| x, &iter) {
            return format!("iter-inconsistent {}", m);
        }
        let index: Vec<String> = (0..len)
            .map(|i| match guard(|| self.0.index(i)) {
                Some(x) => x.to_string(),
                None => "panic".into(),
            })
            .collect();
        format!("len {} empty {} iter {:?} index [{}]", len, self.0.is_empty(), iter, index.join(", "))
    }
}
