//! Canonical wire values (same text as lean/FlatModel/Driver/Wire.lean) and the conversions
//! between them and the crate's read items / owned values.
use flatcontainer::impls::columns::ReadColumns;
use flatcontainer::impls::index::IndexContainer;
use flatcontainer::impls::slice::ReadSlice;
use flatcontainer::Region;

#[derive(Debug, Clone, PartialEq)]
pub enum Val {
    Nat(u128),
    Bytes(Vec<u8>),
    List(Vec<Val>),
    Unit,
    None,
    Some(Box<Val>),
    Ok(Box<Val>),
    Err(Box<Val>),
    Pair(Box<Val>, Box<Val>),
    /// an accessor contradicted another accessor of the same item (C13); never produced by the model
    Bad(String),
}

impl Val {
    pub fn render(&self) -> String {
        let mut s = String::new();
        self.render_into(&mut s);
        s
    }
    fn render_into(&self, s: &mut String) {
        use std::fmt::Write;
        match self {
            Val::Nat(n) => write!(s, "{}", n).unwrap(),
            Val::Bytes(b) => {
                s.push('x');
                for x in b {
                    write!(s, "{:02x}", x).unwrap();
                }
            }
            Val::List(xs) => {
                s.push('[');
                for (i, x) in xs.iter().enumerate() {
                    if i > 0 {
                        s.push(',');
                    }
                    x.render_into(s);
                }
                s.push(']');
            }
            Val::Unit => s.push('u'),
            Val::None => s.push('n'),
            Val::Some(v) => {
                s.push_str("s:");
                v.render_into(s)
            }
            Val::Ok(v) => {
                s.push_str("k:");
                v.render_into(s)
            }
            Val::Err(v) => {
                s.push_str("e:");
                v.render_into(s)
            }
            Val::Pair(a, b) => {
                s.push('(');
                a.render_into(s);
                s.push(',');
                b.render_into(s);
                s.push(')');
            }
            Val::Bad(m) => {
                s.push_str("!inconsistent:");
                s.push_str(m)
            }
        }
    }
    pub fn parse(s: &str) -> Option<Val> {
        let cs = s.as_bytes();
        let (v, rest) = parse(cs)?;
        if rest.is_empty() {
            Some(v)
        } else {
            None
        }
    }
}

fn hexv(c: u8) -> Option<u8> {
    match c {
        b'0'..=b'9' => Some(c - b'0'),
        b'a'..=b'f' => Some(c - b'a' + 10),
        _ => None,
    }
}

fn parse(cs: &[u8]) -> Option<(Val, &[u8])> {
    match cs {
        [b'u', r @ ..] => Some((Val::Unit, r)),
        [b'n', r @ ..] => Some((Val::None, r)),
        [b's', b':', r @ ..] => parse(r).map(|(v, r)| (Val::Some(Box::new(v)), r)),
        [b'k', b':', r @ ..] => parse(r).map(|(v, r)| (Val::Ok(Box::new(v)), r)),
        [b'e', b':', r @ ..] => parse(r).map(|(v, r)| (Val::Err(Box::new(v)), r)),
        [b'x', r @ ..] => {
            let mut out = vec![];
            let mut r = r;
            while r.len() >= 2 {
                match (hexv(r[0]), hexv(r[1])) {
                    (Some(h), Some(l)) => {
                        out.push(h * 16 + l);
                        r = &r[2..];
                    }
                    _ => break,
                }
            }
            Some((Val::Bytes(out), r))
        }
        [b'[', b']', r @ ..] => Some((Val::List(vec![]), r)),
        [b'[', r @ ..] => {
            let mut items = vec![];
            let mut r = r;
            loop {
                let (v, r2) = parse(r)?;
                items.push(v);
                match r2 {
                    [b',', r3 @ ..] => r = r3,
                    [b']', r3 @ ..] => return Some((Val::List(items), r3)),
                    _ => return None,
                }
            }
        }
        [b'(', r @ ..] => {
            let (a, r1) = parse(r)?;
            let r1 = match r1 {
                [b',', r @ ..] => r,
                _ => return None,
            };
            let (b, r2) = parse(r1)?;
            match r2 {
                [b')', r3 @ ..] => Some((Val::Pair(Box::new(a), Box::new(b)), r3)),
                _ => None,
            }
        }
        _ => {
            let n = cs.iter().take_while(|c| c.is_ascii_digit()).count();
            if n == 0 {
                return None;
            }
            let s = std::str::from_utf8(&cs[..n]).ok()?;
            Some((Val::Nat(s.parse().ok()?), &cs[n..]))
        }
    }
}

/// Every way of consuming an iterator must agree with stepping it with `next`: `nth`, `skip`, `count`, `last`
/// and the size hints along the way (a specialised `nth`/`count`/`last` is a classic place for an off-by-one).
/// `mk` makes a fresh iterator (adaptors such as `map` do not forward `nth`, so the methods are called on the
/// iterator itself and `show` is applied afterwards); `want` is what stepping yielded.
pub fn iter_audit<I, T, U: PartialEq + std::fmt::Debug>(mk: impl Fn() -> I, show: impl Fn(T) -> U, want: &[U]) -> Option<String>
where
    I: Iterator<Item = T>,
{
    let n = want.len();
    let mut ks = vec![0, 1, n / 2, n.saturating_sub(1), n, n + 1];
    ks.sort();
    ks.dedup();
    for &k in &ks {
        let mut it = mk();
        let got = it.nth(k).map(&show);
        if got.as_ref() != want.get(k) {
            return Some(format!("nth({})={:?},by-next={:?}", k, got, want.get(k)));
        }
        // ... and the iterator continues right after the element it jumped to
        let rest: Vec<U> = if got.is_some() { it.take(n + 2).map(&show).collect() } else { vec![] };
        if rest[..] != want[(k + 1).min(n)..] {
            return Some(format!("after nth({}): {:?},by-next={:?}", k, rest, &want[(k + 1).min(n)..]));
        }
        let rest: Vec<U> = mk().skip(k).take(n + 2).map(&show).collect();
        if rest[..] != want[k.min(n)..] {
            return Some(format!("skip({}): {:?},by-next={:?}", k, rest, &want[k.min(n)..]));
        }
        let mut it = mk();
        for _ in 0..k.min(n) {
            let _ = it.next();
        }
        let rem = n - k.min(n);
        let (lo, hi) = it.size_hint();
        if lo > rem || hi.map_or(false, |h| h < rem) {
            return Some(format!("after {} of {}: size_hint=({},{:?})", k.min(n), n, lo, hi));
        }
        let c = it.count();
        if c != rem {
            return Some(format!("after {} of {}: count()={}", k.min(n), n, c));
        }
    }
    let last = mk().last().map(&show);
    if last.as_ref() != want.last() {
        return Some(format!("last()={:?},by-next={:?}", last, want.last()));
    }
    None
}

/// Read items and indices → wire values. Rendering a composite item goes through *every* accessor
/// (len, is_empty, get, iter) and reports `Val::Bad` when they contradict each other.
pub trait Render {
    fn render(self) -> Val;
}
/// Owned values → wire values (by reference).
pub trait ToVal {
    fn to_val(&self) -> Val;
}
/// Wire values → owned inputs.
pub trait FromVal: Sized {
    fn from_val(v: &Val) -> Option<Self>;
}

/// element types of plain vectors / slices: `u8` travels as a byte string
pub trait Elem: Sized {
    fn slice_to_val(xs: &[Self]) -> Val;
    fn vec_from_val(v: &Val) -> Option<Vec<Self>>;
}

macro_rules! nat_impl { ($($t:ty),*) => {$(
    impl Render for $t { fn render(self) -> Val { Val::Nat(self as u128) } }
    impl Render for &$t { fn render(self) -> Val { Val::Nat(*self as u128) } }
    impl ToVal for $t { fn to_val(&self) -> Val { Val::Nat(*self as u128) } }
    impl FromVal for $t { fn from_val(v: &Val) -> Option<Self> { match v { Val::Nat(n) => <$t>::try_from(*n).ok(), _ => None } } }
)*} }
nat_impl!(u8, u16, u32, u64, usize, u128);
macro_rules! list_elem { ($($t:ty),*) => {$(
    impl Elem for $t {
        fn slice_to_val(xs: &[Self]) -> Val { Val::List(xs.iter().map(|x| x.to_val()).collect()) }
        fn vec_from_val(v: &Val) -> Option<Vec<Self>> { match v { Val::List(xs) => xs.iter().map(<$t>::from_val).collect(), _ => None } }
    }
)*} }
list_elem!(u16, u32, u64, usize, u128, i64, bool, char, f64, (), String, i8, i16, i32, i128, isize, f32, std::time::Duration);
impl Elem for u8 {
    fn slice_to_val(xs: &[Self]) -> Val {
        Val::Bytes(xs.to_vec())
    }
    fn vec_from_val(v: &Val) -> Option<Vec<Self>> {
        match v {
            Val::Bytes(b) => Some(b.clone()),
            // a slice of mirrored u8 travels as a list of numbers
            Val::List(xs) => xs.iter().map(u8::from_val).collect(),
            _ => None,
        }
    }
}

// i64 / f64 travel as their bit patterns, bool as 0/1, char as its scalar value
impl Render for i64 { fn render(self) -> Val { Val::Nat(self as u64 as u128) } }
impl Render for &i64 { fn render(self) -> Val { Val::Nat(*self as u64 as u128) } }
impl ToVal for i64 { fn to_val(&self) -> Val { Val::Nat(*self as u64 as u128) } }
impl FromVal for i64 { fn from_val(v: &Val) -> Option<Self> { match v { Val::Nat(n) => u64::try_from(*n).ok().map(|x| x as i64), _ => None } } }
impl Render for f64 { fn render(self) -> Val { Val::Nat(self.to_bits() as u128) } }
impl Render for &f64 { fn render(self) -> Val { Val::Nat(self.to_bits() as u128) } }
impl ToVal for f64 { fn to_val(&self) -> Val { Val::Nat(self.to_bits() as u128) } }
impl FromVal for f64 { fn from_val(v: &Val) -> Option<Self> { match v { Val::Nat(n) => u64::try_from(*n).ok().map(f64::from_bits), _ => None } } }
// the other signed integers and f32 travel as the bit pattern of their width, a Duration as its nanoseconds (< 2^64)
macro_rules! bits_impl { ($($t:ty => $u:ty),*) => {$(
    impl Render for $t { fn render(self) -> Val { Val::Nat(self as $u as u128) } }
    impl Render for &$t { fn render(self) -> Val { Val::Nat(*self as $u as u128) } }
    impl ToVal for $t { fn to_val(&self) -> Val { Val::Nat(*self as $u as u128) } }
    impl FromVal for $t { fn from_val(v: &Val) -> Option<Self> { match v { Val::Nat(n) => <$u>::try_from(*n).ok().map(|x| x as $t), _ => None } } }
)*} }
bits_impl!(i8 => u8, i16 => u16, i32 => u32, i128 => u128, isize => usize);
impl Render for f32 { fn render(self) -> Val { Val::Nat(self.to_bits() as u128) } }
impl Render for &f32 { fn render(self) -> Val { Val::Nat(self.to_bits() as u128) } }
impl ToVal for f32 { fn to_val(&self) -> Val { Val::Nat(self.to_bits() as u128) } }
impl FromVal for f32 { fn from_val(v: &Val) -> Option<Self> { match v { Val::Nat(n) => u32::try_from(*n).ok().map(f32::from_bits), _ => None } } }
impl Render for std::time::Duration { fn render(self) -> Val { Val::Nat(self.as_nanos()) } }
impl Render for &std::time::Duration { fn render(self) -> Val { Val::Nat(self.as_nanos()) } }
impl ToVal for std::time::Duration { fn to_val(&self) -> Val { Val::Nat(self.as_nanos()) } }
impl FromVal for std::time::Duration { fn from_val(v: &Val) -> Option<Self> { match v { Val::Nat(n) => u64::try_from(*n).ok().map(std::time::Duration::from_nanos), _ => None } } }
impl Render for bool { fn render(self) -> Val { Val::Nat(self as u128) } }
impl Render for &bool { fn render(self) -> Val { Val::Nat(*self as u128) } }
impl ToVal for bool { fn to_val(&self) -> Val { Val::Nat(*self as u128) } }
impl FromVal for bool { fn from_val(v: &Val) -> Option<Self> { match v { Val::Nat(0) => Some(false), Val::Nat(1) => Some(true), _ => None } } }
impl Render for char { fn render(self) -> Val { Val::Nat(self as u32 as u128) } }
impl Render for &char { fn render(self) -> Val { Val::Nat(*self as u32 as u128) } }
impl ToVal for char { fn to_val(&self) -> Val { Val::Nat(*self as u32 as u128) } }
impl FromVal for char { fn from_val(v: &Val) -> Option<Self> { match v { Val::Nat(n) => u32::try_from(*n).ok().and_then(char::from_u32), _ => None } } }
impl Render for () { fn render(self) -> Val { Val::Unit } }
impl Render for &() { fn render(self) -> Val { Val::Unit } }
impl ToVal for () { fn to_val(&self) -> Val { Val::Unit } }
impl FromVal for () { fn from_val(v: &Val) -> Option<Self> { match v { Val::Unit => Some(()), _ => None } } }

/// every `&str` that leaves the crate is re-validated byte-wise (C04)
impl Render for &str {
    fn render(self) -> Val {
        match std::str::from_utf8(self.as_bytes()) {
            Ok(_) => Val::Bytes(self.as_bytes().to_vec()),
            Err(_) => Val::Bad(format!("invalid-utf8:{}", Val::Bytes(self.as_bytes().to_vec()).render())),
        }
    }
}
impl Render for &String { fn render(self) -> Val { self.as_str().render() } }
impl ToVal for String { fn to_val(&self) -> Val { Val::Bytes(self.as_bytes().to_vec()) } }
impl FromVal for String { fn from_val(v: &Val) -> Option<Self> { match v { Val::Bytes(b) => String::from_utf8(b.clone()).ok(), _ => None } } }

impl<T: Elem> Render for &[T] { fn render(self) -> Val { T::slice_to_val(self) } }
impl<T: Elem> ToVal for Vec<T> { fn to_val(&self) -> Val { T::slice_to_val(self) } }
impl<T: Elem> FromVal for Vec<T> { fn from_val(v: &Val) -> Option<Self> { T::vec_from_val(v) } }
// nested vectors are lists of values
macro_rules! nested_elem { ($($t:ty),*) => {$(
    impl<X> Elem for $t where $t: ToVal + FromVal {
        fn slice_to_val(xs: &[Self]) -> Val { Val::List(xs.iter().map(|x| x.to_val()).collect()) }
        fn vec_from_val(v: &Val) -> Option<Vec<Self>> { match v { Val::List(xs) => xs.iter().map(<$t>::from_val).collect(), _ => None } }
    }
)*} }
nested_elem!(Vec<X>, Option<X>);
impl<X, Y> Elem for Result<X, Y> where Result<X, Y>: ToVal + FromVal {
    fn slice_to_val(xs: &[Self]) -> Val { Val::List(xs.iter().map(|x| x.to_val()).collect()) }
    fn vec_from_val(v: &Val) -> Option<Vec<Self>> { match v { Val::List(xs) => xs.iter().map(Self::from_val).collect(), _ => None } }
}

impl<T: Render> Render for Option<T> { fn render(self) -> Val { match self { None => Val::None, Some(x) => Val::Some(Box::new(x.render())) } } }
impl<T: ToVal> ToVal for Option<T> { fn to_val(&self) -> Val { match self { None => Val::None, Some(x) => Val::Some(Box::new(x.to_val())) } } }
impl<T: FromVal> FromVal for Option<T> { fn from_val(v: &Val) -> Option<Self> { match v { Val::None => Some(None), Val::Some(x) => T::from_val(x).map(Some), _ => None } } }
impl<T: Render, E: Render> Render for Result<T, E> { fn render(self) -> Val { match self { Ok(x) => Val::Ok(Box::new(x.render())), Err(x) => Val::Err(Box::new(x.render())) } } }
impl<T: ToVal, E: ToVal> ToVal for Result<T, E> { fn to_val(&self) -> Val { match self { Ok(x) => Val::Ok(Box::new(x.to_val())), Err(x) => Val::Err(Box::new(x.to_val())) } } }
impl<T: FromVal, E: FromVal> FromVal for Result<T, E> { fn from_val(v: &Val) -> Option<Self> { match v { Val::Ok(x) => T::from_val(x).map(Ok), Val::Err(x) => E::from_val(x).map(Err), _ => None } } }

/// tuples travel as right-nested pairs ending in `u`
macro_rules! tuple_impl { ($($n:ident $i:tt),+) => {
    impl<$($n: Render),+> Render for ($($n,)+) {
        fn render(self) -> Val { let mut out = Val::Unit; let items = vec![$(self.$i.render()),+]; for x in items.into_iter().rev() { out = Val::Pair(Box::new(x), Box::new(out)); } out }
    }
    impl<$($n: ToVal),+> ToVal for ($($n,)+) {
        fn to_val(&self) -> Val { let mut out = Val::Unit; let items = vec![$(self.$i.to_val()),+]; for x in items.into_iter().rev() { out = Val::Pair(Box::new(x), Box::new(out)); } out }
    }
    impl<$($n: FromVal),+> FromVal for ($($n,)+) {
        #[allow(unused_assignments)]
        fn from_val(v: &Val) -> Option<Self> {
            let mut cur = v;
            let r = ($({ match cur { Val::Pair(a, b) => { let x = $n::from_val(a)?; cur = b; x } _ => return None } },)+);
            if *cur == Val::Unit { Some(r) } else { None }
        }
    }
    impl<$($n),+> Elem for ($($n,)+) where ($($n,)+): ToVal + FromVal {
        fn slice_to_val(xs: &[Self]) -> Val { Val::List(xs.iter().map(|x| x.to_val()).collect()) }
        fn vec_from_val(v: &Val) -> Option<Vec<Self>> { match v { Val::List(xs) => xs.iter().map(Self::from_val).collect(), _ => None } }
    }
} }
tuple_impl!(A 0);
tuple_impl!(A 0, B 1);
tuple_impl!(A 0, B 1, C 2);
tuple_impl!(A 0, B 1, C 2, D 3);
tuple_impl!(A 0, B 1, C 2, D 3, E 4, F 5, G 6, H 7, I 8, J 9);
tuple_impl!(A 0, B 1, C 2, D 3, E 4, F 5, G 6, H 7, I 8, J 9, K 10, L 11, M 12, N 13, O 14, P 15);
pub const CAP: usize = 1 << 20;

/// Rendering of read items, by structural recursion over the *region* type (the Huffman read item
/// cannot be named from outside the crate, so traits on item types do not reach it).
/// Rendering a composite item goes through every accessor and reports `Val::Bad` on contradiction.
pub trait RItem: Region {
    fn render(item: Self::ReadItem<'_>) -> Val;
    /// positional accessors, for the items that have them (C13)
    fn acc(_item: &Self::ReadItem<'_>, _op: &str, _arg: usize) -> Option<Val> {
        None
    }
}

use flatcontainer::impls::codec::{Codec, CodecRegion};
use flatcontainer::impls::deduplicate::{CollapseSequence, ConsecutiveIndexPairs};
use flatcontainer::impls::huffman_container::HuffmanContainer;
use flatcontainer::{ColumnsRegion, MirrorRegion, OptionRegion, OwnedRegion, ResultRegion, SliceRegion, StringRegion};

macro_rules! mirror_ritem { ($($t:ty),*) => {$(
    impl RItem for MirrorRegion<$t> { fn render(item: $t) -> Val { Render::render(item) } }
)*} }
mirror_ritem!(u8, u16, u32, u64, usize, u128, i64, f64, bool, char, (), i8, i16, i32, i128, isize, f32, std::time::Duration);

/// Owned input forms arrive with spare capacity: `Vec`s and `String`s whose capacity exceeds their length, at every
/// level of nesting (what pushing element by element, `with_capacity`, `pop` or `truncate` leave behind).
pub trait Spare {
    fn spare(self) -> Self;
}
macro_rules! spare_noop { ($($t:ty),*) => {$( impl Spare for $t { fn spare(self) -> Self { self } } )*} }
spare_noop!(u8, u16, u32, u64, usize, u128, i8, i16, i32, i64, i128, isize, f32, f64, bool, char, (), std::time::Duration);
impl Spare for String {
    fn spare(mut self) -> Self {
        self.reserve(5);
        self
    }
}
impl<T: Spare> Spare for Vec<T> {
    fn spare(self) -> Self {
        let mut v: Vec<T> = self.into_iter().map(Spare::spare).collect();
        v.reserve(3);
        v
    }
}
impl<T: Spare> Spare for Option<T> {
    fn spare(self) -> Self {
        self.map(Spare::spare)
    }
}
impl<T: Spare, E: Spare> Spare for Result<T, E> {
    fn spare(self) -> Self {
        match self {
            Ok(x) => Ok(x.spare()),
            Err(e) => Err(e.spare()),
        }
    }
}
macro_rules! spare_tuple { ($($n:ident $i:tt),+) => {
    impl<$($n: Spare),+> Spare for ($($n,)+) { fn spare(self) -> Self { ($(self.$i.spare(),)+) } }
} }
spare_tuple!(A 0);
spare_tuple!(A 0, B 1);
spare_tuple!(A 0, B 1, C 2);
spare_tuple!(A 0, B 1, C 2, D 3);
spare_tuple!(A 0, B 1, C 2, D 3, E 4, F 5, G 6, H 7, I 8, J 9);
spare_tuple!(A 0, B 1, C 2, D 3, E 4, F 5, G 6, H 7, I 8, J 9, K 10, L 11, M 12, N 13, O 14, P 15);
impl<T: Elem + Clone> RItem for OwnedRegion<T> {
    fn render(item: &[T]) -> Val {
        T::slice_to_val(item)
    }
}
impl<T: Clone + ToVal> RItem for Vec<T> {
    fn render(item: &T) -> Val {
        item.to_val()
    }
}
/// every `&str` that leaves the crate is re-validated byte-wise (C04)
impl<R> RItem for StringRegion<R>
where
    for<'a> R: Region<ReadItem<'a> = &'a [u8]> + 'a,
{
    fn render(item: &str) -> Val {
        Render::render(item)
    }
}
impl<C: Codec, R> RItem for CodecRegion<C, R>
where
    for<'a> R: Region<ReadItem<'a> = &'a [u8]> + Push<&'a [u8]> + 'a,
{
    fn render(item: &[u8]) -> Val {
        Val::Bytes(item.to_vec())
    }
}
use flatcontainer::Push;
macro_rules! huff_ritem { ($($b:ty),*) => {$(
    impl RItem for HuffmanContainer<$b> {
        fn render(item: Self::ReadItem<'_>) -> Val {
            match item.decode() {
                Ok(it) => {
                    let xs: Vec<$b> = it.take(CAP + 1).cloned().collect();
                    if xs.len() > CAP { Val::Bad("decode-does-not-terminate".into()) } else { <$b as Elem>::slice_to_val(&xs) }
                }
                Err(raw) => <$b as Elem>::slice_to_val(raw),
            }
        }
    }
)*} }
huff_ritem!(u8, u16);
impl<R: RItem> RItem for OptionRegion<R> {
    fn render(item: Option<R::ReadItem<'_>>) -> Val {
        match item {
            None => Val::None,
            Some(x) => Val::Some(Box::new(R::render(x))),
        }
    }
}
impl<T: RItem, E: RItem> RItem for ResultRegion<T, E> {
    fn render(item: Result<T::ReadItem<'_>, E::ReadItem<'_>>) -> Val {
        match item {
            Ok(x) => Val::Ok(Box::new(T::render(x))),
            Err(x) => Val::Err(Box::new(E::render(x))),
        }
    }
}
impl<R: RItem> RItem for CollapseSequence<R> {
    fn render(item: R::ReadItem<'_>) -> Val {
        R::render(item)
    }
    fn acc(item: &R::ReadItem<'_>, op: &str, arg: usize) -> Option<Val> {
        R::acc(item, op, arg)
    }
}
impl<R: RItem + Region<Index = (usize, usize)>, O: IndexContainer<usize>> RItem for ConsecutiveIndexPairs<R, O> {
    fn render(item: R::ReadItem<'_>) -> Val {
        R::render(item)
    }
    fn acc(item: &R::ReadItem<'_>, op: &str, arg: usize) -> Option<Val> {
        R::acc(item, op, arg)
    }
}
macro_rules! tuple_ritem { ($ty:ident; $($n:ident $i:tt),+) => {
    impl<$($n: RItem),+> RItem for flatcontainer::impls::tuple::$ty<$($n),+> {
        fn render(item: Self::ReadItem<'_>) -> Val {
            let mut out = Val::Unit;
            let items = vec![$($n::render(item.$i)),+];
            for x in items.into_iter().rev() { out = Val::Pair(Box::new(x), Box::new(out)); }
            out
        }
    }
} }
tuple_ritem!(TupleARegion; A 0);
tuple_ritem!(TupleABRegion; A 0, B 1);
tuple_ritem!(TupleABCRegion; A 0, B 1, C 2);
tuple_ritem!(TupleABCDRegion; A 0, B 1, C 2, D 3);
tuple_ritem!(TupleABCDEFGHIJRegion; A 0, B 1, C 2, D 3, E 4, F 5, G 6, H 7, I 8, J 9);
tuple_ritem!(TupleABCDEFGHIJKLMNOPRegion; A 0, B 1, C 2, D 3, E 4, F 5, G 6, H 7, I 8, J 9, K 10, L 11, M 12, N 13, O 14, P 15);

macro_rules! seq_item_body { ($r:ident, $item:ident) => {{
    let by_iter: Vec<Val> = $item.iter().take(CAP).map(|x| $r::render(x)).collect();
    let len = $item.len();
    if len != by_iter.len() {
        return Val::Bad(format!("len={},iter-count={}", len, by_iter.len()));
    }
    if $item.is_empty() != (len == 0) {
        return Val::Bad(format!("len={},is_empty={}", len, $item.is_empty()));
    }
    let (lo, hi) = $item.iter().size_hint();
    if lo > len || hi.map_or(false, |h| h < len) {
        return Val::Bad(format!("len={},size_hint=({},{:?})", len, lo, hi));
    }
    for (i, v) in by_iter.iter().enumerate() {
        let g = $r::render($item.get(i));
        if g != *v {
            return Val::Bad(format!("get({})={},iter={}", i, g.render(), v.render()));
        }
    }
    if by_iter.len() < CAP {
        if let Some(m) = iter_audit(|| $item.iter(), |x| $r::render(x), &by_iter) {
            return Val::Bad(m);
        }
        let n = $item.iter().len();
        if n != len {
            return Val::Bad(format!("len={},iter().len()={}", len, n));
        }
    }
    Val::List(by_iter)
}} }
macro_rules! seq_item_acc { ($r:ident, $item:ident, $op:ident, $arg:ident) => {
    Some(match $op {
        "len" => Val::Nat($item.len() as u128),
        "is_empty" => Val::Nat($item.is_empty() as u128),
        "get" => $r::render($item.get($arg)),
        "iter" => {
            let by_iter: Vec<Val> = $item.iter().take(CAP).map(|x| $r::render(x)).collect();
            if by_iter.len() < CAP {
                if let Some(m) = iter_audit(|| $item.iter(), |x| $r::render(x), &by_iter) {
                    return Some(Val::Bad(m));
                }
            }
            Val::List(by_iter)
        }
        "iterlen" => Val::Nat($item.iter().len() as u128),
        _ => return None,
    })
} }
impl<R: RItem, O: IndexContainer<R::Index>> RItem for SliceRegion<R, O> {
    fn render(item: ReadSlice<'_, R, O>) -> Val {
        seq_item_body!(R, item)
    }
    fn acc(item: &ReadSlice<'_, R, O>, op: &str, arg: usize) -> Option<Val> {
        seq_item_acc!(R, item, op, arg)
    }
}
impl<R: RItem, O: IndexContainer<usize>> RItem for ColumnsRegion<R, O> {
    fn render(item: ReadColumns<'_, R>) -> Val {
        seq_item_body!(R, item)
    }
    fn acc(item: &ReadColumns<'_, R>, op: &str, arg: usize) -> Option<Val> {
        seq_item_acc!(R, item, op, arg)
    }
}
