//! Counting allocator: counts `alloc`/`realloc` calls (and bytes) while a window is open.
use std::alloc::{GlobalAlloc, Layout, System};
use std::sync::atomic::{AtomicBool, AtomicU64, Ordering::Relaxed};

pub struct Counting;
static OPEN: AtomicBool = AtomicBool::new(false);
static CALLS: AtomicU64 = AtomicU64::new(0);
/// live heap bytes (guards against runaway decodes)
static LIVE: AtomicU64 = AtomicU64::new(0);
const LIMIT: u64 = 3 << 30;

unsafe impl GlobalAlloc for Counting {
    unsafe fn alloc(&self, l: Layout) -> *mut u8 {
        if OPEN.load(Relaxed) {
            CALLS.fetch_add(1, Relaxed);
        }
        if LIVE.fetch_add(l.size() as u64, Relaxed) > LIMIT {
            std::process::abort();
        }
        System.alloc(l)
    }
    unsafe fn dealloc(&self, p: *mut u8, l: Layout) {
        LIVE.fetch_sub(l.size() as u64, Relaxed);
        System.dealloc(p, l)
    }
    unsafe fn realloc(&self, p: *mut u8, l: Layout, n: usize) -> *mut u8 {
        if OPEN.load(Relaxed) {
            CALLS.fetch_add(1, Relaxed);
        }
        LIVE.fetch_add(n as u64, Relaxed);
        LIVE.fetch_sub(l.size() as u64, Relaxed);
        System.realloc(p, l, n)
    }
}

/// RAII window: allocator calls are counted while it lives (closed even when the call panics)
pub struct Window;
pub fn window() -> Window {
    OPEN.store(true, Relaxed);
    Window
}
impl Drop for Window {
    fn drop(&mut self) {
        OPEN.store(false, Relaxed);
    }
}
/// read and reset the number of allocator calls made inside windows
pub fn take() -> u64 {
    CALLS.swap(0, Relaxed)
}
