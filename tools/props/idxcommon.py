"""Index containers: reference semantics of the documentation (C05, C19) and sequence enumeration."""
import itertools
from vlib import Script
from fcat import Rng

U32 = 1 << 32
USIZE = 1 << 64
CONTAINERS = ["idx:vec", "idx:list", "idx:opt"]


def alphabet(s):
    return [0, s, 2 * s % USIZE, 3 * s % USIZE, 1, U32 - 1, U32, 1 << 63, USIZE - 1]


class StrideRef:
    """the documented pattern: 0, s, 2s, ... then repeats of the last element"""

    def __init__(self):
        self.st = ("empty",)

    def continues(self, x):
        k = self.st[0]
        if k == "empty":
            return x == 0
        if k == "zero":
            return True
        if k == "striding":
            _, s, c = self.st
            return x == s * c or x == s * (c - 1)
        _, s, c, r = self.st
        return x == s * (c - 1)

    def push(self, x):
        if not self.continues(x):
            return False
        k = self.st[0]
        if k == "empty":
            self.st = ("zero",)
        elif k == "zero":
            self.st = ("striding", x, 2)
        elif k == "striding":
            _, s, c = self.st
            # when both readings coincide (s == 0) the crate may count either way; the sequence is the same
            self.st = ("striding", s, c + 1) if x == s * c else ("saturated", s, c, 1)
        else:
            _, s, c, r = self.st
            self.st = ("saturated", s, c, r + 1)
        return True

    def left_trivial(self):
        return self.st[0] in ("striding", "saturated")


def expected_used(kind, xs):
    """heap bytes in use after pushing xs into a fresh container, by the documented rule (C19)"""
    if kind == "idx:vec":
        return [8 * len(xs)]
    rest = list(xs)
    if kind == "idx:opt":
        ref = StrideRef()
        n = 0
        for x in xs:
            if not ref.push(x):
                break
            n += 1
        rest = list(xs[n:])
    mid = list(itertools.takewhile(lambda x: x < U32, rest))
    tail = rest[len(mid):]
    return [4 * len(mid), 8 * len(tail)]


def obs_line(kind, xs, with_used):
    idx = [str(x) for x in xs] + ["panic"]
    s = "len %d empty %s iter [%s] index [%s]" % (len(xs), "true" if not xs else "false",
                                                   ", ".join(str(x) for x in xs), ", ".join(idx))
    if with_used:
        s += " used [%s]" % ", ".join(str(u) for u in expected_used(kind, xs))
    return s


def strip_used(reply):
    return reply.split(" used ")[0]


def seq_script(prop, kind, ops, with_used):
    """ops: list of ints (push) or 'c' (clear) / 'e' (extend with the following batch)"""
    s = Script(prop, kind)
    s.add("new c %s" % kind)
    cur = []
    ref = StrideRef()
    ever_stored = False      # did any value ever reach a vector (then capacity may legitimately be retained)
    for op in ops:
        if isinstance(op, str) and op.startswith("r"):
            s.add("ireserve c %s" % op[1:], ("eq", "ok"), shape="reserve")
        elif op == "c":
            s.add("clear c", ("eq", "ok"), shape="clear")
            cur = []
            ref = StrideRef()
        elif isinstance(op, tuple):
            s.add("iextend c [%s]" % ",".join(str(x) for x in op), ("eq", "ok"), shape="ext%d" % len(op))
            for x in op:
                cur.append(x)
                if not ref.push(x) or kind != "idx:opt":
                    ever_stored = True
        else:
            s.add("ipush c %d" % op, ("eq", "ok"), sig="ipush-panics@" + kind, shape="p" + cls(op, cur))
            cur.append(op)
            if not ref.push(op) or kind != "idx:opt":
                ever_stored = True
        if ref.left_trivial():
            s.nontrivial = True
        if with_used:
            s.add("iobs c", ("eq", obs_line(kind, cur, True)), sig="iobs@" + kind, shape="o")
            if kind == "idx:opt" and not ever_stored:
                # "occupies no heap at all": not even reserved capacity. The oracle pins the exact reply, so the model
                # may be compared on it too (its `reserveMask` / `withCapMask` decide this): a capacity, but not a policy
                s.add("icap c", ("eq", "cap [0, 0]"), cmp="exact", sig="free-sequence-holds-capacity@" + kind, shape="cap")
        else:
            exp = obs_line(kind, cur, False)
            s.add("iobs c", ("pred", (lambda e: lambda got, _: None if strip_used(got) == e else "expected " + e)(exp), "faithful sequence"),
                  cmp="nouse", sig="iobs@" + kind, shape="o")
    return s


def cleared_with_data(ops, upto):
    """after a clear the vectors legitimately keep the capacity they had: only claim zero capacity before the first
    element ever left the stride"""
    seen = []
    ref = StrideRef()
    for op in ops:
        if op == "c":
            ref = StrideRef()
        elif isinstance(op, tuple):
            for x in op:
                if not ref.push(x):
                    return True
        elif isinstance(op, int):
            if not ref.push(op):
                return True
        if op is upto:
            break
    return False


def cls(x, cur):
    if x >= U32:
        return "L"
    if cur and x == cur[-1]:
        return "r"
    return "s"


def exhaustive(prop, length, with_used, strides=(2,), with_clear=True):
    out = []
    for st in strides:
        al = alphabet(st) + (["c"] if with_clear else [])
        for kind in CONTAINERS:
            for ops in itertools.product(al, repeat=length):
                out.append(seq_script(prop, kind, list(ops), with_used))
    return out


def random_seqs(prop, rng, n, maxlen, with_used):
    out = []
    for _ in range(n):
        kind = rng.pick(CONTAINERS)
        st = rng.pick([0, 1, 2, 3, 7, U32 - 1, U32, (1 << 63), (1 << 62), USIZE - 1, 5])
        al = alphabet(st)
        ln = 1 + rng.below(maxlen)
        ops = []
        mode = rng.below(4)
        k = 0
        while len(ops) < ln:
            r = rng.below(20)
            if r == 0:
                ops.append("c")
                k = 0
            elif r == 2:
                ops.append("r%d" % rng.below(50))
            elif r == 1:
                ops.append(tuple(rng.pick(al) for _ in range(rng.below(4))))
            elif mode == 0 and rng.below(8) != 0:
                ops.append(k * st % USIZE)   # long strides
                k += 1
            elif mode == 1 and rng.below(8) != 0:
                ops.append(k)                # dense
                k += 1
            else:
                ops.append(rng.pick(al) if rng.below(4) else rng.next())
        out.append(seq_script(prop, kind, ops, with_used))
    return out


def stride_scripts(prop, rng, n, exhaustive_len):
    """bare Stride: accepted exactly on the documented pattern, untouched on rejection"""
    out = []
    seqs = []
    for st in (2, 0, 1 << 63):
        for ops in itertools.product(alphabet(st)[:6] + [1 << 63], repeat=exhaustive_len):
            seqs.append(list(ops))
    for _ in range(n):
        st = rng.pick([0, 1, 2, 3, U32, 1 << 62, 1 << 63, USIZE - 1])
        al = alphabet(st)
        seqs.append([rng.pick(al) if rng.below(3) else (i * st) % USIZE for i in range(1 + rng.below(9))])
    for ops in seqs:
        s = Script(prop, "stride")
        s.add("new s stride")
        ref = StrideRef()
        acc = []
        for x in ops:
            ok = ref.push(x)
            s.add("spush s %d" % x, ("eq", "accepted" if ok else "rejected"), sig="stride-push", shape="a" if ok else "r")
            if ok:
                acc.append(x)
            exp = "len %d empty %s iter [%s] index [%s]" % (len(acc), "true" if not acc else "false",
                                                            ", ".join(map(str, acc)), ", ".join(map(str, acc)))
            s.add("sobs s", ("eq", exp), sig="stride-obs", shape="o")
            if ref.left_trivial():
                s.nontrivial = True
        out.append(s)
    return out
