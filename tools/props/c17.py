"""C17: allocation discipline — none after pre-sizing, logarithmic without."""
import math
from fcat import Rng
from props.regcommon import RB, entries
from vlib import parse_pairs

ID = "C17"
THEOREMS = [("FlatModel.Props.C17", t) for t in (
    "FC.C17.push_caps_fit", "FC.C17.pushes_fit", "FC.C17.lens_of_pushes", "FC.C17.no_growth_after_reserve_items",
    "FC.C17.no_growth_after_reserve_regions", "FC.C17.no_growth_after_merge", "FC.C17.growAll_of_sources",
    "FC.C17.no_growth_merge_sources", "FC.C17.heap_caps_constant", "FC.C17.heap_constant_after_merge",
    "FC.C17.heap_constant_after_reserve_items", "FC.C17.heap_constant_after_reserve_regions", "FC.C17.built_inv",
    "FC.C17.no_growth_after_clear", "FC.C17.log_growth", "FC.C17.push_doubles", "FC.log_growth_mvec",
    "FC.C17.no_growth_after_merge_capacity", "FC.C17.stack_no_growth_after_reserve", "FC.C17.stack_indices_fit",
    "FC.C17.with_capacity_indices")]
THEOREMS += [("FlatModel.Props.UniverseHeap", "FC.Universe." + t) for t in ("C17_built_every_composition", "C17_fit_every_composition", "C17_merge_every_composition", "C17_merge_sources_every_composition", "C17_reserve_every_composition", "C17_clear_every_composition", "C17_log_growth_every_composition")]
THEOREMS += [("FlatModel.Props.C17Grows", "FC.C17." + t) for t in (
    "log_growth_keyed", "log_growth_heap", "appears_from_zero", "push_doubles_keyed", "pushes_keys_sublist", "no_changes_elsewhere",
    "total_allocs_le", "total_allocs_le_heap", "log_growth_reach", "clear_keeps", "clear_keeps_exactly", "clear_exact_needs_anchor",
    "columnsVec_not_cstep", "columns_all_tracked_false", "columnsVec_partial", "columnsVec_changes_le", "first_allocation")]
THEOREMS += [("FlatModel.Props.UniverseGrows", "FC.Universe." + t) for t in (
    "C17_keys_are_heap_uncoded", "C17_log_growth_uncoded", "C17_push_doubles_uncoded", "C17_total_uncoded", "C17_total_nocolumns",
    "C17_bridge_vecSized", "C17_clear_keeps_uncoded", "C17_clear_exact_uncoded")]
LEAN_TARGETS = ["FlatModel.Generated.CoveredHeap", "FlatModel.Generated.CoveredUniverseOps"]
PROFILES = {"quick": ["checked", "wrapping"], "thorough": ["checked", "wrapping"], "search": ["checked"]}
RULE = ("vector-backed structural entries (owned, string, slice with Vec indices, option, result, tuple, Vec-as-region) and FlatStacks "
        "with Vec indices: reserve_items(batch, in every form with a ReserveItems impl incl. Option<&T> / Result<&T,&E> by value and batches of const arrays, half of them through an iterator whose size hint has lower bound 0) / reserve_regions(sources) / merge_regions(sources) / merge_capacity, from empty and "
        "from populated regions, then pushing exactly the announced contents: every capacity reported by heap_size is unchanged and "
        "(plain-data payloads) the counting allocator sees no call inside the pushes; without pre-sizing, n = 2^6..2^12 (quick) / "
        "2^14 (thorough) pushes into every non-coded entry cost at most (#storages) * (log2(bytes stored) + 3) allocator calls; "
        "the same bound when every small batch is preceded by its own reservation (reserve_items / FlatStack::extend); merge_capacity "
        "from 1..3 source stacks; non-trivial when the batch would make at least one storage grow if not pre-sized")
ASSUMPTIONS = ["the allocator, RawVec's growth policy and the optimiser are runtime facts: the theorem covers the bookkeeping "
               "(who reserves how much for which child), the counting allocator covers the rest by sampling"]


def structural(t):
    """the regions C17 names: only vectors, announced exactly by reserve_items"""
    k = t.kind
    if k in ("mirror", "owned", "vecregion"):
        return True
    if k == "string":
        return t.args[0].kind == "owned"
    if k == "slice":
        return t.args[1].kind == "vec" and structural(t.args[0])
    if k in ("option", "result", "tuple"):
        return all(structural(x) for x in t.sub())
    return False


def plain(t):
    return not t.has("vecregion") or all(x.args[0].kind != "string_t" for x in t.walk() if x.kind == "vecregion")


def caps_of(reply):
    p = parse_pairs(reply)
    return None if p is None else [c for _, c in p]


def same_caps(got, other):
    a, b = caps_of(got), caps_of(other)
    if a is None or b is None:
        return None
    return None if a == b else "capacities changed: %s -> %s" % (b, a)


def no_allocs(got, _):
    return None if got == "allocs 0" else "allocator was called inside the announced pushes"


def uniform(b, rng, n):
    """a value of the entry's (list / byte string) shape with exactly n elements"""
    from fcat import gen_value
    if b.sh[0] == "bytes":
        return bytes(rng.pick([0, 1, 2, 97, 98, 127, 128, 200, 254, 255]) for _ in range(n))
    return [gen_value(rng, b.sh[1], 1) for _ in range(n)]


def presized(cat, rng, how, stack=None):
    b = RB(ID, cat, rng, stack)
    b.s.noshrink = True
    b.new("a")
    if rng.below(2):
        for _ in range(1 + rng.below(5)):     # already populated
            v = b.value()
            b.push("a", v, b.form_for(v))
    batch = [b.value() for _ in range(1 + rng.below(12))]
    rforms = [f for f in cat["reserve_forms"] if f not in cat["array_forms"]]
    target = "a"
    form = None
    if how == "items":
        form = rng.pick(rforms)
        aforms = cat.get("reserve_array_forms", [])
        if aforms and rng.below(4) == 0 and b.sh[0] in ("list", "bytes") and not (b.sh[0] == "bytes" and b.sh[1]):
            # a batch of const arrays `&[T; N]`: all of one length N <= 4
            n = rng.below(5)
            batch = [uniform(b, rng, n) for _ in batch]
            form = rng.pick(aforms)
        # half of the time the announcement arrives through an iterator without a useful size hint (`~`)
        wire = form + ("~" if rng.below(2) else "")
        b.raw("reserve_items a %s [%s]" % (wire, ",".join(b.r(v) for v in batch)), ("eq", "ok"), shape="rsvi%d%s" % (len(batch), wire[-1:] if wire.endswith("~") else ""))
    else:
        # the batch lives in 1..3 source regions
        srcs = []
        k = 1 + rng.below(3)
        for i in range(k):
            n = "s%d" % i
            b.new(n)
            srcs.append(n)
        for j, v in enumerate(batch):
            b.push(srcs[j % k], v, b.form_for(v))
        # push order must be the sources' contents, whatever order
        batch = [v for i in range(k) for v in b.h[srcs[i]].vals]
        if how == "regions":
            b.raw("reserve_regions a %s" % " ".join(srcs), ("eq", "ok"), shape="rsvr%d" % k)
        else:
            b.merge("m", srcs)
            target = "m"
    h0 = b.raw("heap %s" % target, None, cmp="none", shape="heap")
    b.raw("allocs", None, cmp="none", shape="allocs")
    forms = [f for f in cat["forms"] if f not in ("item", "itemowned") and f not in cat["array_forms"]]
    # owned forms move the caller's vector in; they are fine too (no allocation inside the push)
    for v in batch:
        f = form if (form in forms and rng.below(2)) else rng.pick(forms)
        b.push(target, v, f, sig="push@" + b.entry)
    sig = {"items": "realloc-after-reserve_items", "regions": "realloc-after-reserve_regions", "merge": "realloc-after-merge_regions"}[how]
    if stack is None or how != "items":
        nh = b.raw("heap %s" % target, ("rel", h0, same_caps, "no capacity changes while absorbing the announced contents"), cmp="none",
                   sig=sig + "@" + b.entry, shape="heap")
        # capacities are never compared number by number, but the model's own capacities must obey the same rule
        b.s.lines[nh].both = True
        if plain(cat["term"]):
            b.raw("allocs", ("pred", no_allocs, "no allocator call"), cmp="none", sig=sig + "-allocs@" + b.entry, shape="allocs")
    b.readall(target)
    b.s.nontrivial = len(batch) >= 3
    return b.s


def stack_presized(cat, rng, stack):
    """FlatStack's own index vector: with_capacity(n) / merge_capacity(sources), then n copies"""
    b = RB(ID, cat, rng, stack)
    b.s.noshrink = True
    b.new("a")
    n = 3 + rng.below(20)
    vals = [b.value() for _ in range(n)]
    if rng.below(2):
        b.raw("x a swithcap %d" % n, ("eq", "ok"), shape="withcap")
        target = "a"
        whole = False
    else:
        # 1..3 source stacks of different sizes: the merged stack must be sized for their sum
        k = 1 + rng.below(3)
        srcs = ["s%d" % i for i in range(k)]
        for s_ in srcs:
            b.new(s_)
        cuts = sorted(rng.below(n + 1) for _ in range(k - 1))
        owner = [sum(1 for c in cuts if j >= c) for j in range(n)]
        for v, o in zip(vals, owner):
            b.push(srcs[o], v, b.form_for(v))
        b.merge("m", srcs)
        target = "m"
        whole = structural(cat["term"])
    h0 = b.raw("heap %s" % target, None, cmp="none", shape="heap")
    for v in vals:
        b.push(target, v, b.form_for(v))

    from fcat import layout, index_of
    ixcap = n * layout(index_of(cat["term"]))[0]

    def last_cap_same(got, other):
        a, c = caps_of(got), caps_of(other)
        if a is None or c is None:
            return None
        if whole:
            return None if a == c else "capacities changed: %s -> %s" % (c, a)
        # the index vector was sized for exactly n entries; that capacity must still be reported afterwards
        if ixcap not in c:
            return None
        return None if ixcap in a else "index vector reallocated: capacity %d no longer reported (%s -> %s)" % (ixcap, c, a)
    nh = b.raw("heap %s" % target, ("rel", h0, last_cap_same, "the FlatStack's index vector does not reallocate"), cmp="none",
               sig="stack-index-realloc@" + b.entry, shape="heap")
    b.s.lines[nh].both = True
    b.s.nontrivial = True
    return b.s


def growth(cat, rng, n, stack=None):
    b = RB(ID, cat, rng, stack)
    b.s.noshrink = True
    b.s.model = False          # a long run: the oracle alone
    b.new("a")
    b.raw("allocs", None, cmp="none", shape="allocs")
    pool = [b.value() for _ in range(16)]
    forms = [f for f in cat["forms"] if f in ("ref", "slice", "str", "refslice", "refstr", "refref")] or [cat["forms"][0]]
    for i in range(n):
        v = pool[rng.below(len(pool))]
        b.push("a", v, rng.pick(forms), sig="push@" + b.entry)
    h = b.raw("heap a", None, cmp="none", shape="heap")

    def logbound(got, replies, h=h):
        p = parse_pairs(replies[h]) or []
        calls = int(got.split(" ")[1])
        used = sum(u for u, _ in p)
        bound = max(1, len(p)) * (math.ceil(math.log2(used + 2)) + 3)
        return None if calls <= bound else "%d allocator calls for %d pushes (%d storages, %d bytes): more than %d" % (calls, n, len(p), used, bound)
    b.raw("allocs", ("pred", logbound, "O(log n) allocator calls per storage"), cmp="none", sig="linear-allocations@" + b.entry, shape="allocs")
    b.s.nontrivial = True
    return b.s


def growth_batched(cat, rng, n, stack=None):
    """the logarithmic bound again, but with a reservation before every small batch (reserve_items on a region,
    extend on a stack): reserving exactly what the next batch needs must not turn growth into one reallocation per batch"""
    b = RB(ID, cat, rng, stack)
    b.s.noshrink = True
    b.s.model = False
    b.new("a")
    b.raw("allocs", None, cmp="none", shape="allocs")
    pool = [b.value() for _ in range(16)]
    rforms = [f for f in cat["reserve_forms"] if f not in cat["array_forms"]]
    forms = [f for f in cat["forms"] if f in ("ref", "slice", "str", "refslice", "refstr", "refref")] or [cat["forms"][0]]
    done = 0
    while done < n:
        batch = [pool[rng.below(len(pool))] for _ in range(1 + rng.below(3))]
        if stack is not None:
            b.raw("x a sextend %s [%s]" % (rng.pick(forms), ",".join(b.r(v) for v in batch)), ("eq", "ok"), shape="sext")
            b.h["a"].vals.extend(batch)
        else:
            b.raw("reserve_items a %s [%s]" % (rng.pick(rforms), ",".join(b.r(v) for v in batch)), ("eq", "ok"), shape="rsvi")
            for v in batch:
                b.push("a", v, rng.pick(forms), sig="push@" + b.entry)
        done += len(batch)
    h = b.raw("heap a", None, cmp="none", shape="heap")

    def logbound(got, replies, h=h):
        p = parse_pairs(replies[h]) or []
        calls = int(got.split(" ")[1])
        used = sum(u for u, _ in p)
        bound = max(1, len(p)) * (math.ceil(math.log2(used + 2)) + 3)
        return None if calls <= bound else "%d allocator calls for %d items in reserved batches (%d storages, %d bytes): more than %d" % (calls, done, len(p), used, bound)
    b.raw("allocs", ("pred", logbound, "O(log n) allocator calls per storage"), cmp="none", sig="linear-allocations-batched@" + b.entry, shape="allocs")
    b.s.nontrivial = True
    return b.s


def generate(seed, tier):
    rng = Rng(seed * 73 + 18)
    per = {"quick": 6, "thorough": 80, "search": 30}[tier]
    out = []
    for cat in entries(lambda c: structural(c["term"]) and c["caps"]["heap"]):
        for i in range(per):
            if cat["reserve_forms"]:
                out.append(presized(cat, rng.fork(), "items"))
            out.append(presized(cat, rng.fork(), "regions"))
            out.append(presized(cat, rng.fork(), "merge"))
    for cat in entries(lambda c: c["caps"]["heap"] and not c["caps"]["coded"]):
        for i in range(max(1, per // 3)):
            out.append(stack_presized(cat, rng.fork(), "vec"))
    sizes = {"quick": [64, 1024, 4096], "thorough": [64, 256, 1024, 4096, 16384], "search": [64, 1024]}[tier]
    for cat in entries(lambda c: c["caps"]["heap"] and not c["caps"]["coded"] and plain(c["term"])):
        for n in sizes:
            out.append(growth(cat, rng.fork(), n))
        if cat["reserve_forms"] and [f for f in cat["reserve_forms"] if f not in cat["array_forms"]]:
            out.append(growth_batched(cat, rng.fork(), sizes[1]))
        if "vec" in cat["stacks"]:
            out.append(growth_batched(cat, rng.fork(), sizes[1], "vec"))
    return out
