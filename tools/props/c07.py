"""C07: dictionary codec — exact bytes back or refusal, frequent strings cost one byte.

The heavy-hitter summary's tuning constant (the literal N of `Vec::with_capacity(N)` in `impl<T> Default for
MisraGries<T>`) is not fixed by the property: tools/gen_facts.py re-extracts it on every run (before the generators
execute: `vlib.regenerate()` is the first step of `check`) into lean/FlatModel/Generated/SourceFacts.lean (`mgCapacity`,
the model's `MG.cap`) and work/source_facts.json, from where `capacity()` reads it. The regimes that depend on it
(`crowded`, `compacting`, `script(big=True)`) use K = cap/2 + 1 in the proved inequality and scale their sizes with cap
so that they keep crossing the compaction threshold."""
import json
import os
import re
from fcat import Rng, parse, shape
from props.regcommon import RB, entries, catalogue
from vlib import flatten_idx

ID = "C07"
THEOREMS = [("FlatModel.Props.C07", t) for t in (
    "FC.C07.wf_default", "FC.C07.wf_newFrom", "FC.C07.wf_newFrom_of_wf", "FC.C07.newFrom_hit_any", "FC.C07.decode_encode",
    "FC.C07.roundtrip", "FC.C07.frame", "FC.C07.refuses_ambiguous", "FC.C07.accepts_empty", "FC.C07.accepts_hit",
    "FC.C07.accepts_all_default", "FC.C07.reachable_wf", "FC.C07.generations", "FC.C07.generations_batch", "FC.C07.merge_inv",
    "FC.C07.heavy_hitters_one_byte_partial", "FC.C07.heavy_hitters_all_tagged", "FC.C07.all_sources_tagged",
    "FC.C07.all_pushed_tagged")]
THEOREMS += [("FlatModel.Props.C07MG", "FC.C07." + t) for t in (
    "cap_is_source_fact", "tidy_generic", "update_generic", "run_generic", "summary_never_full", "compaction_keeps_some",
    "est_le_trueCount", "trueCount_le_est_add_D", "accounting", "weight_le_total", "mg_error_bound", "mg_error_bound_pos", "heavy_survives", "heavy_survives_pos", "mg_invariant_generic", "mg_error_bound_generic", "classical_bound_fails", "done_spec", "mergedMG_of_histories", "merged_estimate", "dominant_in_summary", "push_hit_one_byte", "ranked_heavy_hitter_one_byte", "dominant_strings_tagged")]
# the one place where the value of the regenerated constant is looked at (`by decide`): capacity 0 / 1 / not recognised fail here
THEOREMS += [("FlatModel.Proofs.MGCap", "FC.Codec." + t) for t in ("MG.two_le_cap", "run_length_lt_cap")]
PROFILES = {"quick": ["checked", "wrapping"], "thorough": ["checked", "wrapping"], "search": ["checked"]}

_ROOT = os.path.dirname(os.path.dirname(os.path.dirname(os.path.abspath(__file__))))
DEFAULT_CAP = 1024      # used by the generator only when the extractor did not recognise the source (the Lean build fails then)
MAX_SCALED_CAP = 1 << 14  # beyond this the compaction regimes are not scaled any further (scripts of > 10^5 lines)


def capacity():
    """the capacity literal of `MisraGries::default()` as extracted by tools/gen_facts.py on this run (None: not recognised)"""
    v = None
    try:
        v = json.load(open(os.path.join(_ROOT, "work", "source_facts.json"))).get("mg_capacity")
    except (OSError, ValueError):
        try:
            m = re.search(r"^def mgCapacity : Nat := (\d+)\s*$", open(os.path.join(
                _ROOT, "lean", "FlatModel", "Generated", "SourceFacts.lean")).read(), flags=re.M)
            v = int(m.group(1)) if m else None
        except OSError:
            v = None
    return v if isinstance(v, int) and v >= 2 else None


def _cap():
    return capacity() or DEFAULT_CAP


def _sz(x, cap):
    """a size chosen for capacity 1024, scaled to the capacity in force (identity at 1024)"""
    return max(1, x * min(cap, MAX_SCALED_CAP) // 1024)


def _texts(cap, recognised=True):
    K = cap // 2 + 1
    rule = ("source regions filled from small vocabularies (1..9 strings over 1..4 first bytes, the empty string, skewed counts), "
            "merge_regions over 1..3 sources, pushes of vocabulary words / random strings / single low bytes / extensions / prefixes, "
            "every push read back, up to three generations and clear; a scarce-tag regime (ties decided by byte order); a crowded regime (more "
            "distinct strings than free tags, one dominating by the proved inequality K*N < (F+1)*(K*C-2*N), K = cap/2+1 = %d: must cost one byte); "
            "a compacting regime (3..5 sources with disjoint vocabularies of %d..%d strings, counts 1..6, > cap = %d weighted updates: the summary's tidy "
            "runs inside new_from; dictionary compared index by index with the model); plus %d..%d insertions (> cap) over a vocabulary of %d strings per source in the thorough tier; "
            "cap = %d is the summary's capacity literal re-extracted from the crate's source on this run (gen_facts: mgCapacity%s), the sizes scale with it; "
            "non-trivial when the target region has a non-empty dictionary; distinct by operation and value shapes" % (
                K, _sz(280, cap), _sz(280, cap) + _sz(120, cap) - 1, cap, _sz(1100, cap), _sz(1100, cap) + _sz(400, cap) - 1, _sz(1500, cap), cap,
                "" if recognised else "; NOT RECOGNISED in the source, the generator fell back to 1024 and the Lean build rejects the fact"))
    if cap > MAX_SCALED_CAP:
        rule += "; cap exceeds %d: the compaction regimes are generated for %d and do not reach the threshold" % (MAX_SCALED_CAP, MAX_SCALED_CAP)
    assumptions = ["Vec::with_capacity(%d).capacity() == %d (std; %d is the literal in `impl<T> Default for MisraGries<T>`, re-extracted on "
                   "every run): the summary compacts at exactly %d entries, and never reallocates (FC.Codec.run_length_lt_cap)" % (cap, cap, cap, cap)]
    return rule, assumptions


# refreshed by generate(): `check` imports this module before it regenerates the source facts and reads RULE afterwards
RULE, ASSUMPTIONS = _texts(_cap(), capacity() is not None)

ENTRIES = ["codec", "string(codec)", "consec(codec,opt)"]


def cost_one(got, _):
    if not got.startswith("idx "):
        return "a frequent string must be accepted"
    parts = flatten_idx(got[4:]).split(",")
    if len(parts) == 2 and int(parts[1]) - int(parts[0]) != 1:
        return "a dominating string must cost exactly one byte, got range " + got[4:]
    return None


def idx_or_refused(got, _):
    return None if got.startswith("idx ") or got == "refused" else "idx or refusal"


def word(rng, firsts, utf8):
    if rng.below(8) == 0:
        return b""
    f = rng.pick(firsts)
    n = rng.below(4)
    if utf8:
        return bytes([f]) + bytes(rng.pick([97, 98, 99]) for _ in range(n))
    return bytes([f]) + bytes(rng.pick([0, 1, 2, 97, 255]) for _ in range(n))


def script(rng, cat, big=False):
    cap = _cap()
    b = RB(ID, cat, rng)
    utf8 = cat["shape"] == ("bytes", True)
    firsts_all = [97, 98, 99, 100, 48] if utf8 else [0, 1, 2, 3, 97, 128, 255]
    gens = 1 + rng.below(3)
    prev = []
    step = 0
    for g in range(gens):
        nsrc = 1 + rng.below(3)
        firsts = [rng.pick(firsts_all) for _ in range(1 + rng.below(4))]
        vocab = list({word(rng, firsts, utf8) for _ in range(1 + rng.below(9))})
        srcs = []
        seen_first = set()
        counts = {}
        nonempty = set()
        for k in range(nsrc):
            name = "s%d_%d" % (g, k)
            if prev and rng.below(2) == 0:
                # a previous target serves as a source again (its statistics come from what was pushed into it)
                name = prev[rng.below(len(prev))]
                if name in srcs:
                    continue
            else:
                b.new(name)
                # big: more than cap insertions per source (the summary compacts while the source is filled)
                n = 1 + rng.below(12) if not big else _sz(1100, cap) + rng.below(_sz(400, cap))
                for i in range(n):
                    w = rng.pick(vocab) if (not big or rng.below(4) == 0) else ("w%d" % rng.below(_sz(1500, cap))).encode()
                    expect = "idx"
                    k2, _ = b.push(name, w, b.form_for(w), expect=expect, sig="codec-default-push" if w else "codec-empty-string", cmp="idx" if not big else "status")
                    if rng.below(3) == 0 and not big:
                        b.read(name, k2, sig="codec-read")
            srcs.append(name)
        # what the merged dictionary is built from: everything ever pushed into the sources since their creation / clear
        for name in srcs:
            for w in b.h[name].vals:
                if w:
                    seen_first.add(w[0])
                    counts[w] = counts.get(w, 0) + 1
        t = "t%d" % g
        b.merge(t, srcs)
        distinct = len(counts)
        free = 256 - len(seen_first)
        # `all_pushed_tagged`: fewer than cap insertions in all, no more heavy hitters than free tags
        small = distinct <= min(free, 200) and not big and sum(len(b.h[n].vals) for n in srcs) < cap
        b.h[t].merged = True
        if distinct:
            b.s.nontrivial = True
        npush = 2 + rng.below(10)
        for i in range(npush):
            r = rng.below(10)
            if r < 4 and vocab:
                w = rng.pick(vocab)
            elif r < 5:
                w = b""
            elif r < 6:
                w = bytes([rng.pick([0, 1, 2, 3, 4, 5] if not utf8 else [0, 1, 2, 48, 97])])
            elif r < 8 and vocab:
                base = rng.pick(vocab)
                w = base + (b"a" if rng.below(2) else b"") if rng.below(2) else base[: max(0, len(base) - 1)]
            else:
                w = word(rng, firsts_all, utf8)
            if w in counts and small:
                exp = ("pred", cost_one, "dominating string costs one byte")
                sig = "codec-frequent-one-byte"
            elif w == b"" or (w and w[0] in seen_first) or w in counts and False:
                exp = ("prefix", "idx")
                sig = "codec-unambiguous-refused" if w else "codec-empty-string"
            else:
                exp = ("pred", idx_or_refused, "idx or refusal")
                sig = "codec-push"
            k2, _ = b.push(t, w, b.form_for(w), expect=exp, sig=sig, cmp="idx" if not big else "status")
            b.read(t, k2, sig="codec-read-differs")
        b.readall(t, sig="codec-readall-differs")
        prev.append(t)
        if rng.below(4) == 0:
            b.clear(t)
            for i in range(1 + rng.below(4)):
                w = word(rng, firsts_all, utf8)
                k2, _ = b.push(t, w, b.form_for(w), sig="codec-default-push" if w else "codec-empty-string", cmp="idx")
                b.read(t, k2, sig="codec-read-differs")
    return b.s


def scarce(rng, cat):
    """few free tags: the sources see almost every byte value as a first byte, so *which* of many equally frequent
    strings get the few tags (ties: ascending byte order, sort_by is stable) becomes observable as 1 byte vs literal"""
    b = RB(ID, cat, rng)
    utf8 = cat["shape"] == ("bytes", True)
    pool = list(range(1, 128)) if utf8 else list(range(256))
    nfree = 1 + rng.below(6)
    # leave nfree byte values unseen
    for _ in range(nfree if not utf8 else 0):
        pool.pop(rng.below(len(pool)))
    b.new("s")
    words = []
    for fb in pool:
        w = bytes([fb]) + (b"a" if utf8 else bytes([rng.below(3)]))
        words.append(w)
    # a few words get higher counts, the rest tie at 1
    for w in words:
        for _ in range(1 + (rng.below(3) if rng.below(10) == 0 else 0)):
            b.push("s", w, b.form_for(w), sig="codec-default-push", cmp="idx")
    extra = [bytes([words[0][0]]) + b"zz%d" % i for i in range(3 + rng.below(6))]
    for w in extra:
        b.push("s", w, b.form_for(w), sig="codec-default-push", cmp="idx")
    b.merge("t", ["s"])
    b.s.nontrivial = True
    # ... and afterwards every word once: whichever string got the *last* free tag (255 in the UTF-8 entries, where the
    # free tags are 0 and 128..255 and there are more words than tags) is pushed, not only a sample of 30
    for w in [rng.pick(words + extra) for _ in range(30)] + words + extra:
        k, _ = b.push("t", w, b.form_for(w), expect=("prefix", "idx"), sig="codec-unambiguous-refused", cmp="idx")
        b.read("t", k, sig="codec-read-differs")
    return b.s


def crowded(rng, cat):
    """more distinct strings than free tags, one of them dominating: by `FC.C07.dominant_strings_tagged` a string with C
    occurrences among N non-empty pushes into fresh sources gets a tag whenever K*N < (F+1)*(K*C - 2*N), K = cap/2 + 1
    (cap the summary's capacity, `capacity()`; 513 for 1024), F the number of byte values never seen as a first byte —
    however the many strings of count one are ordered. The hot string sorts after all others, so it is the first to lose
    its tag if counts are not what decides."""
    K = _cap() // 2 + 1
    b = RB(ID, cat, rng)
    firsts = [97, 98, 99][: 1 + rng.below(3)]
    ncold = 256 + rng.below(120)
    cold = [bytes([firsts[i % len(firsts)]]) + b"%03d" % i for i in range(ncold)]
    hot = bytes([firsts[-1]]) + b"zz"
    nsrc = 1 + rng.below(3)
    free = 256 - len(firsts)
    c = 1
    while not K * (ncold + c) < (free + 1) * (K * c - 2 * (ncold + c)):
        c += 1
    c += rng.below(4)
    srcs = ["s%d" % k for k in range(nsrc)]
    for n in srcs:
        b.new(n)
    hot_home = srcs[rng.below(nsrc)] if rng.below(2) else None
    plan = [(w, srcs[rng.below(nsrc)]) for w in cold] + [(hot, hot_home or srcs[rng.below(nsrc)]) for _ in range(c)]
    # deterministic interleaving
    for i in range(len(plan) - 1, 0, -1):
        j = rng.below(i + 1)
        plan[i], plan[j] = plan[j], plan[i]
    for w, n in plan:
        b.push(n, w, b.form_for(w), sig="codec-default-push", cmp="idx")
    b.merge("t", srcs)
    b.s.nontrivial = True
    for i in range(6):
        w = hot if i % 2 == 0 else rng.pick(cold)
        exp = ("pred", cost_one, "dominating string costs one byte") if w == hot else ("prefix", "idx")
        k, _ = b.push("t", w, b.form_for(w), expect=exp, sig="codec-dominant-one-byte" if w == hot else "codec-unambiguous-refused", cmp="idx")
        b.read("t", k, sig="codec-read-differs")
    return b.s


def compacting(rng, cat):
    """the heavy-hitter summary compacts (`tidy`): in the sources (more than cap insertions) and, with weights, while
    `new_from` folds 3..5 sources with disjoint vocabularies into one summary (more than cap weighted updates, more than
    cap/2 distinct strings, counts 1..6; cap = `capacity()`, the sizes below are those chosen for 1024, scaled). Which
    strings survive with which reduced count decides who gets the tags — compared with the model index by index; the
    dominating string must still cost one byte (`dominant_strings_tagged` holds for histories of any size)."""
    cap = _cap()
    K = cap // 2 + 1
    b = RB(ID, cat, rng)
    firsts = [97, 98, 99, 100][: 1 + rng.below(4)]
    nsrc = 3 + rng.below(3)
    srcs = ["s%d" % k for k in range(nsrc)]
    hot = bytes([firsts[-1]]) + b"zz"
    free = 256 - len(firsts)
    plans = []
    cold = []
    for k, n in enumerate(srcs):
        b.new(n)
        words = [bytes([firsts[(i + k) % len(firsts)]]) + b"%d_%03d" % (k, i) for i in range(_sz(280, cap) + rng.below(_sz(120, cap)))]
        cold += words
        plan = []
        for w in words:
            plan += [w] * (1 + rng.below(6))
        plans.append(plan)
    total = sum(len(p) for p in plans)
    c = 1
    while not K * (total + c) < (free + 1) * (K * c - 2 * (total + c)):
        c += 1
    c += rng.below(5)
    for _ in range(c):
        plans[rng.below(nsrc)].append(hot)
    for n, plan in zip(srcs, plans):
        for i in range(len(plan) - 1, 0, -1):
            j = rng.below(i + 1)
            plan[i], plan[j] = plan[j], plan[i]
        for w in plan:
            b.push(n, w, b.form_for(w), sig="codec-default-push", cmp="status")
    b.merge("t", srcs)
    b.s.nontrivial = True
    for i in range(64):
        w = hot if i % 16 == 0 else rng.pick(cold)
        exp = ("pred", cost_one, "dominating string costs one byte") if w == hot else ("prefix", "idx")
        k, _ = b.push("t", w, b.form_for(w), expect=exp, sig="codec-dominant-one-byte" if w == hot else "codec-unambiguous-refused", cmp="idx")
        b.read("t", k, sig="codec-read-differs")
    return b.s


def generate(seed, tier):
    global RULE, ASSUMPTIONS
    RULE, ASSUMPTIONS = _texts(_cap(), capacity() is not None)
    rng = Rng(seed * 13 + 7)
    n = {"quick": 250, "thorough": 3000, "search": 800}[tier]
    cats = [c for c in catalogue() if c["entry"] in ENTRIES]
    out = []
    for i in range(n):
        out.append(script(rng.fork(), cats[i % len(cats)]))
    for i in range({"quick": 6, "thorough": 60, "search": 20}[tier]):
        out.append(scarce(rng.fork(), cats[i % len(cats)]))
    for i in range({"quick": 6, "thorough": 30, "search": 12}[tier]):
        out.append(crowded(rng.fork(), cats[i % len(cats)]))
    for i in range({"quick": 2, "thorough": 12, "search": 4}[tier]):
        out.append(compacting(rng.fork(), cats[i % len(cats)]))
    if tier == "thorough":
        for i in range(6):
            out.append(script(rng.fork(), cats[0], big=True))
    return out


def distribution(scripts):
    d = {"push": 0, "merge": 0, "clear": 0, "read": 0}
    for s in scripts:
        for l in s.lines:
            op = l.text.split(" ")[0]
            if op in d:
                d[op] += 1
    return d
