"""Random operation histories over RB scripts, shared by C02 / C08 / C09 / C10 / C16."""
from props.regcommon import RB


def dirty_value(b, last):
    return b.value(last if b.collapse else None)


def prehistory(b, name, n, reserve=True, readback=False):
    """n operations on `name`: pushes in random forms, with reservations and reads sprinkled in"""
    rng = b.rng
    last = None
    for _ in range(n):
        r = rng.below(12)
        if r < 8:
            v = dirty_value(b, last)
            last = v
            k, _ = b.push(name, v, b.form_for(v))
            if readback:
                b.read(name, k)
        elif r < 9 and reserve and b.cat["reserve_forms"] and b.stack is None:
            vs = [b.value() for _ in range(rng.below(4))]
            forms = [f for f in b.cat["reserve_forms"] if f not in b.cat["array_forms"]]
            if forms:
                f = rng.pick(forms)
                b.raw("reserve_items %s %s [%s]" % (name, f + ("~" if rng.below(2) else ""), ",".join(b.r(v) for v in vs)), ("eq", "ok"), shape="rsvi")
        elif r < 10 and reserve and b.cat["caps"]["reserve_regions"] and b.stack is None:
            others = [h for h in b.h if h != name or b.cat["caps"]["clone"]]
            srcs = [rng.pick(others) for _ in range(rng.below(3))] if others else []
            b.raw("reserve_regions %s %s" % (name, " ".join(srcs)), ("eq", "ok"), shape="rsvr%d" % len(srcs))
        elif r < 11 and b.stack is not None:
            b.raw("x %s sreserve %d" % (name, rng.below(40)), ("eq", "ok"), shape="srsv")
        else:
            if b.h[name].vals:
                b.read(name, rng.below(len(b.h[name].vals)))
    return last


def empty_like(v):
    return b"" if isinstance(v, bytes) else []


def encoded_region(b, rng, name="s"):
    """bring a Huffman-coded composition into its *encoded* state: fill a raw region with a pool of values, merge from
    it; returns the pool — every later push must draw from it (or be empty) to stay inside the acceptance contract"""
    pool = [b.value() for _ in range(2 + rng.below(4))]
    b.new("r0")
    for v in pool:
        b.push("r0", v, b.form_for(v))
    b.merge(name, ["r0"])
    if b.sh[0] in ("bytes", "list", "tup", "opt", "res"):
        from props.regcommon import empty_value
        pool.append(empty_value(rng, b.sh))
    return pool
