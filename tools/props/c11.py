"""C11: CollapseSequence collapses exactly consecutive equal items, nothing else."""
import itertools
from fcat import Rng, rust_eq, gen_value
from props.regcommon import has_f64, RB, entries
from vlib import parse_pairs

ID = "C11"
THEOREMS = [("FlatModel.Props.C11", t) for t in ("FC.C11.hit_or_miss", "FC.C11.forgets_on_reset", "FC.C11.only_equal", "FC.C11.last_tracks", "FC.C11.adjacent", "FC.C11.last_after_history")]
LEAN_TARGETS = ["FlatModel.Generated.Covered"]
PROFILES = {"quick": ["checked", "wrapping"], "thorough": ["checked", "wrapping"], "search": ["checked"]}
RULE = ("push sequences over 2..3-value domains with runs, alternations, equal-after-clear, equal-after-merge, equal-after-clone, "
        "NaN; top-level collapse regions: the returned index equals the previous one iff the value == the previous value, and used "
        "heap bytes do not change on a hit; collapse nested in tuples/columns/slices/consec: all ordinals re-read; exhaustive "
        "sequences up to a fixed length over 3 values on the top-level entries; non-trivial when a script contains both a "
        "collapsed and a non-collapsed push")
EXHAUSTIVE = {"quick": True, "thorough": True}


def top(cat):
    return cat["term"].kind == "collapse"


def fresh_indices(cat):
    """does every stored item get an index of its own (not for mirror regions, whose index is the value)"""
    t = cat["term"].args[0]
    while t.kind in ("collapse", "consec", "string"):
        t = t.args[0]
    return t.kind != "mirror"


def seq_script(cat, rng, ops, domain):
    """ops: indices into domain, or 'c' clear / 'm' merge-and-continue / 'k' clone-and-continue / 's' serde"""
    b = RB(ID, cat, rng)
    b.idx_cmp = "idx"
    b.new("a")
    cur = "a"
    prev_line = None
    prev_val = None
    hit = miss = False
    gen = 0
    for op in ops:
        if op == "c":
            b.clear(cur)
            prev_line = prev_val = None
            continue
        if op == "r":
            # a reservation must not end the current run of equal items
            b.raw("reserve_regions %s %s" % (cur, cur if (cat["caps"]["clone"] and rng.below(2)) else ""), ("eq", "ok"), shape="rsvr")
            continue
        if op == "f" and cat["caps"]["clone"]:
            # clone_from into a destination with its own, different history (and its own remembered item)
            gen += 1
            nxt = "a%d" % gen
            b.new(nxt)
            for _ in range(1 + rng.below(3)):
                w = domain[rng.below(len(domain))]
                b.push(nxt, w, b.form_for(w))
            b.raw("clone_from %s %s" % (nxt, cur), ("eq", "ok"), shape="clone_from")
            b.h[nxt].vals = list(b.h[cur].vals)
            b.h[nxt].last_pushed = b.h[cur].last_pushed
            cur = nxt     # the remembered item travels with the data: prev_line / prev_val stay
            continue
        if op in ("m", "k", "s"):
            gen += 1
            nxt = "a%d" % gen
            if op == "m":
                b.merge(nxt, [cur])
                prev_line = prev_val = None
            elif op == "k" and cat["caps"]["clone"]:
                b.clone(nxt, cur)
            elif op == "s" and cat["caps"]["serde"] and not has_f64(b.sh):   # serde_json: no NaN, finite floats within 1 ulp
                b.raw("serde %s %s" % (nxt, cur), ("eq", "ok"), shape="serde")
                b.h[nxt] = b.h[cur].__class__(nxt, cat)
                b.h[nxt].vals = list(b.h[cur].vals)
            else:
                continue
            cur = nxt
            continue
        v = domain[op]
        heap_before = None
        if top(cat) and cat["caps"]["heap"]:
            heap_before = b.raw("heap %s" % cur, None, cmp="heap", shape="heap")
        k, n = b.push(cur, v, b.form_for(v))
        if top(cat):
            same = prev_val is not None and rust_eq(b.sh, v, prev_val)
            if prev_line is not None:
                pl = prev_line
                if same:
                    b.s.lines[n].exp = ("same", pl)
                    b.s.lines[n].sig = "collapse-miss-on-equal@" + b.entry
                    hit = True
                elif fresh_indices(cat):
                    b.s.lines[n].exp = ("rel", pl, lambda got, other: None if got.startswith("idx") and got != other else "a fresh index", "different value gets a different index")
                    b.s.lines[n].sig = "collapse-hit-on-different@" + b.entry
                    miss = True
                else:
                    miss = True
            if heap_before is not None:
                hb = heap_before
                ha = b.raw("heap %s" % cur, None, cmp="heap", shape="heap")
                if same:
                    b.s.lines[ha].exp = ("rel", hb, lambda got, other: None if sum(u for u, _ in parse_pairs(got) or []) == sum(u for u, _ in parse_pairs(other) or []) else "used bytes changed", "nothing stored on a hit")
                    b.s.lines[ha].sig = "collapse-hit-stores@" + b.entry
            prev_line = n
            # the remembered item is the stored one: the first of a run
            prev_val = b.h[cur].vals[-1]
        b.read(cur, k, sig="collapse-read@" + b.entry)
    b.readall(cur, sig="collapse-read@" + b.entry)
    b.s.nontrivial = (hit and miss) or not top(cat)
    return b.s


def domain_for(cat, rng, n):
    sh = cat["shape"]
    if sh == ("f64",):
        pool = [0, 1 << 63, 0x7FF8000000000000, 0x3FF0000000000000, 0x7FF8000000000001]
        return [rng.pick(pool) for _ in range(n)] if n > 3 else pool[:n]
    out = []
    tries = 0
    while len(out) < n and tries < 50:
        v = gen_value(rng, sh)
        tries += 1
        if v not in out:
            out.append(v)
    while len(out) < n:
        out.append(out[0])
    return out


def generate(seed, tier, rnd=0):
    rng = Rng(seed * 23 + 5)
    out = []
    cats = entries(lambda c: c["term"].has("collapse"))
    ln = {"quick": 5, "thorough": 7, "search": 6}[tier]
    for cat in cats:
        if top(cat) and rnd == 0:
            dom = domain_for(cat, rng, 3)
            for ops in itertools.product(range(3), repeat=ln):
                out.append(seq_script(cat, rng.fork(), list(ops), dom))
        n = {"quick": 40, "thorough": 600, "search": 200}[tier]
        for i in range(n):
            dom = domain_for(cat, rng, 2 + rng.below(2))
            ops = []
            for _ in range(2 + rng.below(14)):
                r = rng.below(16)
                ops.append("c" if r == 0 else "m" if r == 1 else "k" if r == 2 else "s" if r == 3 else "f" if r == 4 else "r" if r == 5 else rng.below(len(dom)))
            out.append(seq_script(cat, rng.fork(), ops, dom))
    return out
