"""C08: clear() makes a region observationally fresh."""
from fcat import Rng
from props.regcommon import RB, entries
from props.hist import prehistory

ID = "C08"
THEOREMS = [("FlatModel.Props.C01", "FC.C08.after_clear"), ("FlatModel.Props.C01", "FC.C08.sim_pushes")]
THEOREMS += [("FlatModel.Props.Universe", "FC.Universe.C08_every_composition")]
LEAN_TARGETS = ["FlatModel.Generated.Covered", "FlatModel.Generated.CoveredUniverse"]
PROFILES = {"quick": ["checked", "wrapping"], "thorough": ["checked", "wrapping"], "search": ["checked"]}
RULE = ("pairs (history, continuation): the continuation runs on the cleared region and on a twin Default::default(); returned "
        "indices and reads are compared step by step (impl vs impl, then vs the model); pre-histories leave dirt (collapsed last "
        "item equal to the first post-clear item, wide rows, strides broken); repeated clear/refill cycles; coded compositions are "
        "cleared in their *encoded* state (after merge_regions) and continued with values outside their dictionary; non-trivial when the "
        "pre-clear history pushed >= 2 items")


def one(cat, rng, stack, cycles):
    b = RB(ID, cat, rng, stack)
    b.idx_cmp = "status"   # index values are opaque here: equality is checked between the two real regions
    b.new("a")
    b.new("t")
    for c in range(cycles):
        last = prehistory(b, "a", 1 + rng.below(8))
        if len(b.h["a"].vals) >= 2:
            b.s.nontrivial = True
        b.clear("a")
        if c > 0:
            b.new("t")
        # continuation on both; the first value repeats the last pre-clear value half of the time
        first = True
        for _ in range(1 + rng.below(6)):
            v = last if (first and last is not None and rng.below(2) == 0) else b.value(last)
            first = False
            last = v
            f = b.form_for(v)
            ka, na = b.push("a", v, f)
            kt, nt = b.push("t", v, f)
            b.s.lines[na].exp = ("same", nt)
            b.s.lines[na].sig = "index-after-clear-differs@" + b.entry
            b.read("a", ka, sig="read-after-clear@" + b.entry)
        b.readall("a", sig="read-after-clear@" + b.entry)
        if b.cat["caps"]["heap"] and stack is None:
            pass
    return b.s


def cleared_coded(cat, rng, stack):
    """coded compositions: a region created by merge_regions carries a dictionary / a code; clear() must drop it — the
    cleared region answers every continuation (also values the dictionary could not represent) like a default one"""
    from props.hist import encoded_region
    b = RB(ID, cat, rng, stack)
    b.idx_cmp = "status"
    pool = encoded_region(b, rng, "a")
    for _ in range(1 + rng.below(6)):
        v = rng.pick(pool)
        b.push("a", v, b.form_for(v))
    b.s.nontrivial = True
    for c in range(1 + rng.below(2)):
        b.clear("a")
        b.new("t")
        for _ in range(2 + rng.below(8)):
            v = b.value() if rng.below(3) else rng.pick(pool)
            f = b.form_for(v)
            ka, na = b.push("a", v, f)
            kt, nt = b.push("t", v, f)
            b.s.lines[na].exp = ("same", nt)
            b.s.lines[na].sig = "index-after-clear-differs@" + b.entry
            b.read("a", ka, sig="read-after-clear@" + b.entry)
        b.readall("a", sig="read-after-clear@" + b.entry)
    # what the cleared region *learned* since the clear must be what the twin learned: the next generation built from
    # either answers alike (a code table or statistics surviving the clear would show here)
    seen = list(b.h["t"].vals)
    if seen and b.stack is None:
        b.merge("a2", ["a"])
        b.merge("t2", ["t"])
        for _ in range(2 + rng.below(5)):
            v = rng.pick(seen)
            f = b.form_for(v)
            ka, na = b.push("a2", v, f)
            kt, nt = b.push("t2", v, f)
            b.s.lines[na].exp = ("same", nt)
            b.s.lines[na].sig = "next-generation-after-clear-differs@" + b.entry
            b.read("a2", ka, sig="read-after-clear@" + b.entry)
    return b.s


def generate(seed, tier):
    rng = Rng(seed * 17 + 3)
    per = {"quick": 6, "thorough": 80, "search": 30}[tier]
    out = []
    for cat in entries():
        for i in range(per):
            out.append(one(cat, rng.fork(), None, 1 + rng.below(3)))
        if cat["caps"]["coded"]:
            for i in range(per):
                out.append(cleared_coded(cat, rng.fork(), None))
        for st in cat["stacks"]:
            for i in range(max(1, per // 3)):
                out.append(one(cat, rng.fork(), st, 1 + rng.below(3)))
            if cat["caps"]["coded"]:
                out.append(cleared_coded(cat, rng.fork(), st))
    return out
