"""C19: index compression delivers the documented space bounds."""
from fcat import Rng
from props import idxcommon as ic

ID = "C19"
THEOREMS = [("FlatModel.Props.C19", t) for t in (
    "FC.C19.cost", "FC.C19.used_bytes", "FC.C19.dense_state", "FC.C19.dense_free")]
PROFILES = {"quick": ["checked", "wrapping"], "thorough": ["checked", "wrapping"], "search": ["checked", "wrapping"]}
RULE = ("the C05 enumeration with the heap bytes in use as the observation, expected cost computed from the documented rule "
        "(stride prefix free, 4 bytes per entry below 2^32, 8 bytes from the first larger value on); long dense/strided/"
        "saturated sequences; non-trivial when the sequence leaves the Empty/Zero stride states")
EXHAUSTIVE = {"quick": True, "thorough": True}
ASSUMPTIONS = ["usize is 64 bits"]


def generate(seed, tier):
    rng = Rng(seed + 19)
    n = {"quick": 4, "thorough": 5, "search": 5}[tier]
    out = ic.exhaustive(ID, n, True, with_clear=True)
    out += ic.random_seqs(ID, rng, {"quick": 300, "thorough": 3000, "search": 1500}[tier], {"quick": 40, "thorough": 400, "search": 60}[tier], True)
    return out


def distribution(scripts):
    d = {}
    for s in scripts:
        d[s.entry] = d.get(s.entry, 0) + 1
    return {"scripts_per_container": d, "lines": sum(len(s.lines) for s in scripts)}
