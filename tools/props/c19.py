"""C19: index compression delivers the documented space bounds."""
from fcat import Rng
from props import idxcommon as ic

ID = "C19"
THEOREMS = [("FlatModel.Props.C19", t) for t in (
    "FC.C19.cost", "FC.C19.used_bytes", "FC.C19.dense_state", "FC.C19.dense_free")] + [
    ("FlatModel.Props.C19Stack", t) for t in ("FC.C19.flatstack_dense_free", "FC.C19.consec_stack_free", "FC.C19.columns_stack_free")]
PROFILES = {"quick": ["checked", "wrapping"], "thorough": ["checked", "wrapping"], "search": ["checked", "wrapping"]}
RULE = ("the C05 enumeration with the heap bytes in use as the observation, expected cost computed from the documented rule "
        "(stride prefix free, 4 bytes per entry below 2^32, 8 bytes from the first larger value on); long dense/strided/"
        "saturated sequences; non-trivial when the sequence leaves the Empty/Zero stride states")
EXHAUSTIVE = {"quick": True, "thorough": True}
ASSUMPTIONS = ["usize is 64 bits"]


def dense_stacks(rng, n):
    """FlatStack<_, IndexOptimized> over consecutive-pair and columns regions of arbitrary contents: the stack's own
    index storage (the last two pairs heap_size reports) must stay empty"""
    from props.regcommon import RB, entries
    from vlib import parse_pairs
    out = []
    cats = entries(lambda c: c["term"].kind in ("consec", "columns") and not c["caps"]["coded"])
    for i in range(n):
        cat = cats[i % len(cats)]
        b = RB(ID, cat, rng.fork(), "opt")
        b.new("a")
        # a bare twin region receives the same values: whatever the stack reports beyond the twin is its own index storage
        twin = "new t %s" % cat["entry"]
        b.raw(twin, ("eq", "ok"))
        canon = cat["forms"][0]
        forms_all = [f for f in cat["forms"] if f not in cat["array_forms"] and f != "item"]

        def both(v):
            b.raw("push t %s %s" % (canon, b.r(v)), ("prefix", "idx"), cmp="status", shape="twin")
        # the stack is not always born by `default()`: with_capacity(n), collect() and merge_capacity size the index
        # container for n entries — which must not cost heap either as long as the indices stay dense
        how = rng.below(4)
        if how == 1:
            b.raw("x a swithcap %d" % (1 + rng.below(200)), ("eq", "ok"), shape="withcap")
        elif how == 2:
            vs = [b.value() for _ in range(1 + rng.below(6))]
            b.raw("x a sfrom %s [%s]" % (rng.pick(forms_all), ",".join(b.r(v) for v in vs)), ("eq", "ok"), shape="from%d" % len(vs))
            b.h["a"].vals = list(vs)
            for v in vs:
                both(v)
        elif how == 3:
            # merge_capacity also sizes the region from the source: the twin is merged from a twin source
            b.new("s0")
            b.raw("new ts %s" % cat["entry"], ("eq", "ok"))
            for _ in range(1 + rng.below(6)):
                v = b.value()
                b.push("s0", v, b.form_for(v))
                b.raw("push ts %s %s" % (canon, b.r(v)), ("prefix", "idx"), cmp="status", shape="twin")
            b.merge("a", ["s0"])
            b.raw("merge t %s ts" % cat["entry"], ("eq", "ok"), shape="merge1")
        for _ in range(3 + rng.below(40)):
            r = rng.below(8)
            if r == 0:
                vs = [b.value() for _ in range(rng.below(5))]
                b.raw("x a sextend %s [%s]" % (rng.pick(forms_all), ",".join(b.r(v) for v in vs)), ("eq", "ok"), shape="ext%d" % len(vs))
                b.h["a"].vals.extend(vs)
                for v in vs:
                    both(v)
            elif r == 1:
                b.raw("x a sreserve %d" % rng.below(40), ("eq", "ok"), shape="reserve")
            else:
                v = b.value()
                b.push("a", v, b.form_for(v))
                both(v)
            if rng.below(8) == 0:
                b.clear("a")
                b.raw("clear t", ("eq", "ok"), shape="clear")
        ht = b.raw("heap t", None, cmp="heap", shape="heap")

        def free(got, other):
            a, t_ = parse_pairs(got), parse_pairs(other)
            if a is None or t_ is None:
                return "pairs"
            rest = list(a)
            later = []
            for p_ in t_:
                # the region's own pairs: identical in the twin (same operations) ...
                if p_ in rest:
                    rest.remove(p_)
                else:
                    later.append(p_)
            for p_ in later:
                # ... or at least the same used bytes (capacities may differ between two instances)
                m = next((q for q in rest if q[0] == p_[0]), None)
                if m is None:
                    return None     # cannot attribute pairs: leave it to the model comparison
                rest.remove(m)
            bad = [q for q in rest if q != (0, 0)]
            return None if not bad else "the stack spends heap on its own indices: %s" % bad
        b.raw("heap a", ("rel", ht, free, "dense indices cost no heap"), cmp="heap", sig="dense-stack-indices-cost-heap@" + b.entry, shape="heap")
        b.s.nontrivial = len(b.h["a"].vals) >= 3
        out.append(b.s)
    return out


def generate(seed, tier, rnd=0):
    rng = Rng(seed + 19)
    n = {"quick": 4, "thorough": 5, "search": 5}[tier]
    out = ic.exhaustive(ID, n, True, with_clear=True) if rnd == 0 else []
    out += ic.random_seqs(ID, rng, {"quick": 300, "thorough": 3000, "search": 1500}[tier], {"quick": 40, "thorough": 400, "search": 60}[tier], True)
    out += dense_stacks(rng, {"quick": 60, "thorough": 600, "search": 200}[tier])
    return out


def distribution(scripts):
    d = {}
    for s in scripts:
        d[s.entry] = d.get(s.entry, 0) + 1
    return {"scripts_per_container": d, "lines": sum(len(s.lines) for s in scripts)}
