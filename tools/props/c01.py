"""C01: the item read at a pushed index equals the pushed value (all compositions, all forms, both profiles)."""
from fcat import Rng
from props.regcommon import RB, entries

ID = "C01"
THEOREMS = [("FlatModel.Props.C01", "FC.C01.roundtrip"), ("FlatModel.Props.C01", "FC.C01.refused"),
            ("FlatModel.Props.C01", "FC.reachable_inv")]
THEOREMS += [("FlatModel.Props.Universe", t) for t in ("FC.Universe.lawful", "FC.Universe.lawfulDense", "FC.Universe.C01_every_composition", "FC.Universe.C01_reachable", "FC.Universe.consec_collapse_unlawful")]
THEOREMS += [("FlatModel.Props.UniverseOps", "FC.Universe.C01_reach_every_composition")]
LEAN_TARGETS = ["FlatModel.Generated.Covered", "FlatModel.Generated.CoveredUniverse"]
PROFILES = {"quick": ["checked", "wrapping"], "thorough": ["checked", "wrapping"], "search": ["checked", "wrapping"]}
RULE = ("per catalogue entry (and per FlatStack over it): scripts of 1..N pushes of type-directed values in random input forms, "
        "each read back at once through index, and for slice/columns items through len/is_empty/get/iter/into_owned in both "
        "representations; non-trivial when a non-empty value is pushed and read through >= 2 accessors; distinct by entry + value shapes")
ASSUMPTIONS = ["coded regions only in their default (raw / empty dictionary) state here; their contract is C06/C07",
               "lengths are unbounded naturals in the model"]


def one(prop, cat, rng, stack, npush):
    b = RB(prop, cat, rng, stack)
    b.new("a")
    last = None
    seq_item = cat["term"].kind in ("slice", "columns")
    for _ in range(npush):
        v = b.value(last if b.collapse else None)
        last = v
        k, _ = b.push("a", v, b.form_for(v))
        b.read("a", k)
        nonempty = v not in (None, [], b"", 0)
        if seq_item:
            for rp in ("backed", "borrowed"):
                n = len(v)
                b.raw("item a #%d %s len" % (k, rp), ("eq", "val %d" % n), sig="item-len@" + b.entry, shape="len")
                b.raw("item a #%d %s is_empty" % (k, rp), ("eq", "val %d" % (1 if n == 0 else 0)), sig="item-is_empty@" + b.entry, shape="is_empty")
                b.raw("item a #%d %s iter" % (k, rp), ("eq", "val " + b.r(v)), sig="item-iter@" + b.entry, shape="iter")
                if n:
                    j = rng.below(n)
                    from fcat import render
                    b.raw("item a #%d %s get %d" % (k, rp, j), ("eq", "val " + render(b.sh[1], v[j])), sig="item-get@" + b.entry, shape="get")
            if nonempty:
                b.s.nontrivial = True
        b.raw("item a #%d backed owned" % k, ("eq", "val " + b.r(b.h["a"].vals[k])), sig="item-owned@" + b.entry, shape="owned")
        if nonempty:
            b.s.nontrivial = True
    b.readall("a")
    return b.s


def generate(seed, tier):
    rng = Rng(seed * 7 + 1)
    per = {"quick": 12, "thorough": 200, "search": 60}[tier]
    maxp = {"quick": 8, "thorough": 40, "search": 12}[tier]
    out = []
    for cat in entries():
        for i in range(per):
            out.append(one(ID, cat, rng.fork(), None, 1 + rng.below(maxp)))
        for st in cat["stacks"]:
            for i in range(max(2, per // 4)):
                out.append(one(ID, cat, rng.fork(), st, 1 + rng.below(maxp)))
    return out


def distribution(scripts):
    forms = {}
    for s in scripts:
        for l in s.lines:
            if l.text.startswith("push "):
                f = l.text.split(" ")[2]
                forms[f] = forms.get(f, 0) + 1
    return {"entries": len({s.entry for s in scripts}), "pushes_per_form": forms,
            "lines": sum(len(s.lines) for s in scripts)}
