"""C02: an issued index keeps reading the same item until clear."""
from fcat import Rng
from props.regcommon import RB, entries
from props.hist import prehistory, encoded_region

ID = "C02"
THEOREMS = [("FlatModel.Props.C01", "FC.C02.frame_history"), ("FlatModel.Props.C01", "FC.C02.issued_valid"),
            ("FlatModel.Props.C09", "FC.C02.frame_reserve"), ("FlatModel.Props.C04", "FC.issued_reads"),
            ("FlatModel.Props.C05", "FC.C05.push_keeps_prefix"), ("FlatModel.Props.C05", "FC.C05.indexOptimized_spill_keeps_prefix"),
            ("FlatModel.Props.C05", "FC.C05.indexList_chonk_keeps_smol"), ("FlatModel.Props.C06Bits", "FC.Huff.frame_bits"),
            ("FlatModel.Props.C06Bits", "FC.C06.frame_coded"), ("FlatModel.Props.C11", "FC.C11.hit_or_miss")]
THEOREMS += [("FlatModel.Props.Universe", t) for t in ("FC.Universe.C02_every_composition", "FC.Universe.C02_issued_valid")]
THEOREMS += [("FlatModel.Props.UniverseOps", "FC.Universe.C02_reserve_every_composition")]
LEAN_TARGETS = ["FlatModel.Generated.Covered", "FlatModel.Generated.CoveredUniverse"]
PROFILES = {"quick": ["checked", "wrapping"], "thorough": ["checked", "wrapping"], "search": ["checked"]}
RULE = ("histories mixing push (any form), reserve_items, reserve_regions and FlatStack::reserve on every catalogue entry and "
        "FlatStack; after every step all issued ordinals are re-read; non-trivial when an earlier ordinal is re-read after "
        ">= 3 later pushes (growth of every backing vector from empty passes capacity boundaries); distinct by op/value shapes")
ASSUMPTIONS = ["reallocation safety of Vec itself is std's; the model has no addresses"]


def one(cat, rng, stack, n):
    b = RB(ID, cat, rng, stack)
    b.new("a")
    b.new("o")
    prehistory(b, "o", rng.below(4))
    last = None
    pushes = 0
    for _ in range(n):
        r = rng.below(10)
        if r < 7:
            v = b.value(last if b.collapse else None)
            last = v
            b.push("a", v, b.form_for(v))
            pushes += 1
        else:
            prehistory(b, "a", 1)
        b.readall("a", sig="earlier-index-changed@" + b.entry)
        if pushes >= 4:
            b.s.nontrivial = True
    return b.s


def coded(cat, rng, n):
    """Huffman-coded compositions in their encoded state: items share partial bytes; empty items at every alignment"""
    b = RB(ID, cat, rng)
    pool = encoded_region(b, rng, "a")
    for k in range(n):
        v = rng.pick(pool)
        b.push("a", v, b.form_for(v))
        b.readall("a", sig="earlier-index-changed@" + b.entry)
        if k >= 3:
            b.s.nontrivial = True
    return b.s


def generate(seed, tier):
    rng = Rng(seed * 11 + 2)
    per = {"quick": 6, "thorough": 80, "search": 30}[tier]
    maxn = {"quick": 12, "thorough": 60, "search": 20}[tier]
    out = []
    for cat in entries():
        for i in range(per):
            out.append(one(cat, rng.fork(), None, 2 + rng.below(maxn)))
        for st in cat["stacks"]:
            for i in range(max(1, per // 3)):
                out.append(one(cat, rng.fork(), st, 2 + rng.below(maxn)))
        if cat["term"].has("huffman"):
            for i in range(per * 3):
                out.append(coded(cat, rng.fork(), 2 + rng.below(maxn)))
    return out
