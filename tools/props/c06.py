"""C06: Huffman container — exact decode at every bit alignment, optimal code lengths."""
import heapq
import itertools
from fcat import Rng
from props.regcommon import RB, catalogue
from vlib import flatten_idx

ID = "C06"
THEOREMS = [("FlatModel.Props.C06Opt", t) for t in (
    "FC.C06.optimal", "FC.C06.optimal'", "FC.C06.optimal_nat", "FC.C06.lengths_kraft_eq_one", "FC.C06.lengths_pos",
    "FC.C06.canonical_is_prefix_free", "FC.C06.code_lt", "FC.C06.single_symbol_one_bit", "FC.C06.lookup_some_iff")] + [
    ("FlatModel.Props.C06Bits", t) for t in (
    "FC.C06.raw_mode", "FC.C06.raw_frame", "FC.C06.raw_mode_all", "FC.C06.clear_raw", "FC.C06.bits_eq_sum", "FC.C06.refuses_unknown",
    "FC.C06.accepts_known", "FC.C06.index_of_denotes", "FC.C06.push_coded", "FC.C06.roundtrip_coded", "FC.C06.frame_coded",
    "FC.C06.roundtrip_coded_all", "FC.C06.roundtrip_after_merge", "FC.C06.createFrom_ok", "FC.Huff.push_appends",
    "FC.Huff.frame_bits", "FC.Huff.decode_spec", "FC.Huff.chunks_spec", "FC.Huff.createFrom_tableOK", "FC.Huff.walk_sound")] + [
    ("FlatModel.Props.C06", t) for t in ("FC.C06.createFrom_good", "FC.C06.roundtrip_merged", "FC.Huff.canonBits_eq_bitsOfCode")] + [
    ("FlatModel.Props.C06Region", t) for t in ("FC.C06.roundtrip", "FC.C06.roundtrip_u8", "FC.C06.refused", "FC.C06.frame", "FC.C06.frame_u8",
                                                "FC.C06.stats_valid", "FC.C06.merged_stats_valid", "FC.C06.merge_inv", "FC.C06.merge_inv_built",
                                                "FC.C06.built_inv", "FC.C06.accepts_merged")]
LEAN_TARGETS = ["FlatModel.Generated.Covered"]
PROFILES = {"quick": ["checked", "wrapping"], "thorough": ["checked", "wrapping"], "search": ["checked", "wrapping"]}
RULE = ("frequency profiles (1 symbol, equal counts, Fibonacci counts forcing 9..20-bit codes, near-uniform 2..17 symbols, "
        "257..600 equiprobable u16 symbols, all profiles over <=3 symbols with counts <=3) x item sequences covering every "
        "start/end bit offset (items of 0..17 symbols) x up to 3 generations of merge_regions, clear, unknown symbols; oracle: "
        "decode == pushed, start == previous end, end-start == sum of code lengths measured by single-symbol pushes, "
        "sum count*length == optimal prefix-code cost (reference Huffman), every length >= 1; non-trivial when an item starts or "
        "ends off a byte boundary or spans a whole byte")
ASSUMPTIONS = ["codes deeper than 57 bits (more than 10^12 recorded symbols) are not exercised", "i64 overflow of statistics is not modelled"]


def huffman_cost(counts):
    """minimum total bits of a prefix code with at least one bit per symbol"""
    ws = sorted(counts)
    if len(ws) == 1:
        return ws[0]
    h = list(ws)
    heapq.heapify(h)
    cost = 0
    while len(h) > 1:
        a = heapq.heappop(h)
        b = heapq.heappop(h)
        cost += a + b
        heapq.heappush(h, a + b)
    return cost


def rng_range(got):
    if not got.startswith("idx "):
        return None
    p = flatten_idx(got[4:]).split(",")
    return int(p[0]), int(p[1])


def profile(rng, kind, u16):
    """symbol -> count"""
    if kind == 0:
        return {rng.below(200): 1 + rng.below(5)}
    if kind == 1:
        n = 2 + rng.below(16)
        base = rng.below(100)
        return {base + i * (1 + rng.below(3)): 1 + rng.below(2) for i in range(n)}
    if kind == 2:
        n = 3 + rng.below(19)
        a, b = 1, 1
        out = {}
        for i in range(n):
            out[i * 3 % 251] = a
            a, b = b, a + b
        return out
    if kind == 3 and u16:
        n = 257 + rng.below(344)
        return {1000 + i: 1 for i in range(n)}
    n = 1 + rng.below(5)
    return {rng.below(250): 1 + rng.below(4) for _ in range(n)}


def fill_sources(b, rng, prof, nsrc, tag):
    """push the profile's symbols (count times each) into nsrc raw regions, as items of random sizes"""
    syms = [s for s, c in prof.items() for _ in range(c)]
    # deterministic shuffle
    for i in range(len(syms) - 1, 0, -1):
        j = rng.below(i + 1)
        syms[i], syms[j] = syms[j], syms[i]
    names = []
    for k in range(nsrc):
        name = "%s%d" % (tag, k)
        b.new(name)
        names.append(name)
    pos = 0
    while pos < len(syms):
        n = 1 + rng.below(7)
        item = syms[pos:pos + n]
        pos += n
        name = rng.pick(names)
        kk, _ = b.push(name, val(b, item), b.form_for(item), sig="huffman-raw-push")
        if rng.below(4) == 0:
            b.read(name, kk, sig="huffman-raw-read")
    return names


def val(b, item):
    return bytes(item) if b.sh[0] == "bytes" else list(item)


def script(cat, rng, kind, exhaustive_prof=None, items=None):
    b = RB(ID, cat, rng)
    b.s.noshrink = True
    u16 = cat["entry"] == "huffman(u16)"
    prof = exhaustive_prof if exhaustive_prof is not None else profile(rng, kind, u16)
    gens = 1 if exhaustive_prof is not None else 1 + rng.below(3)
    srcs = fill_sources(b, rng, prof, 1 + rng.below(3), "s")
    counts = dict(prof)
    ever = set()      # every symbol some ancestor of the current sources has known
    probe = False     # the previous generation's target was cleared: probe this one with a stale symbol
    for g in range(gens):
        ever |= set(counts)
        t = "t%d" % g
        m = "m%d" % g
        b.merge(t, srcs)
        b.merge(m, srcs)
        symbols = sorted(counts)
        # measure code lengths: one single-symbol item per symbol, back to back
        meas = {}
        prev = None
        for s in symbols:
            k, n = b.push(m, val(b, [s]), "own", sig="huffman-known-symbol-refused", cmp="status")
            meas[s] = n
            b.read(m, k, sig="huffman-single-symbol-read")
        meas_lines = dict(meas)
        cs = dict(counts)

        def cost_pred(got, replies, meas_lines=meas_lines, cs=cs):
            total = 0
            for s, n in meas_lines.items():
                r = rng_range(replies[n])
                if r is None:
                    return None
                ln = r[1] - r[0]
                if ln < 1:
                    return "symbol %d has a %d-bit code" % (s, ln)
                total += cs[s] * ln
            opt = huffman_cost(list(cs.values()))
            return None if total == opt else "total bits %d, optimal %d" % (total, opt)
        nc = b.raw("readall %s" % m, ("pred", cost_pred, "code lengths are an optimal prefix code"), sig="huffman-not-optimal", shape="cost")
        # bit ranges are not compared with the model (another tie-break gives another optimal code), but the model's
        # code must be optimal for these counts as well: this is what ties its statistics and its tree to the crate's
        b.s.lines[nc].both = True
        # items on the target
        last_line = None
        seq = items if items is not None else [[rng.pick(symbols) for _ in range(rng.pick([0, 1, 1, 2, 3, 4, 5, 8, 9, 17]))]
                                               for _ in range(1 + rng.below(8))]
        for item in seq:
            k, n = b.push(t, val(b, item), b.form_for(item), sig="huffman-known-symbol-refused", cmp="status")

            def range_pred(got, replies, item=item, last_line=last_line, meas_lines=meas_lines):
                r = rng_range(got)
                if r is None:
                    return "accepted"
                start = 0 if last_line is None else (rng_range(replies[last_line]) or (None, None))[1]
                if start is None:
                    return None
                want = 0
                for s in item:
                    m_ = rng_range(replies[meas_lines[s]])
                    if m_ is None:
                        return None
                    want += m_[1] - m_[0]
                if r[0] != start:
                    return "start %d, previous end %d" % (r[0], start)
                if r[1] - r[0] != want:
                    return "occupies %d bits, code lengths sum to %d" % (r[1] - r[0], want)
                return None
            b.s.lines[n].exp = ("pred", range_pred, "bits == sum of code lengths, items back to back")
            b.s.lines[n].sig = "huffman-bit-range"
            last_line = n
            b.read(t, k, sig="huffman-decode-differs")
            b.s.nontrivial = True
        b.readall(t, sig="huffman-decode-differs")
        if (rng.below(3) == 0 or probe) and exhaustive_prof is None:
            # an unknown symbol must be refused (on a scratch clone: the refusal poisons the handle)
            unknown = next(x for x in range(255, -1, -1) if x not in counts) if not u16 else 60000
            # preferably a *stale* symbol: known to an ancestor (or to this region before a clear), absent from the
            # statistics this code was built from — a region that inherits statistics would accept it
            stale = sorted(ever - set(counts))
            if stale:
                unknown = stale[rng.below(len(stale))]
            b.clone("u", t)
            item = [rng.pick(symbols), unknown]
            b.push("u", val(b, item), "own", expect="refused", sig="huffman-unknown-symbol-accepted", cmp="status")
        probe = False
        if rng.below(5) == 0:
            probe = True
            b.clear(t)
            item = [rng.below(250) for _ in range(rng.below(5))]
            k, _ = b.push(t, val(b, item), b.form_for(item), sig="huffman-raw-push")
            b.read(t, k, sig="huffman-raw-read")
        # next generation: statistics are what was pushed into t and m
        # now and then only `t` serves as a source: the symbols that were only measured in `m` become stale
        # (always after a clear: what `t` knew before the clear must be gone)
        nsrcs = [t] if (exhaustive_prof is None and (probe or rng.below(3) == 0)) else [t, m]
        nxt = {}
        for name in nsrcs:
            for v in b.h[name].vals:
                for s in v:
                    nxt[s] = nxt.get(s, 0) + 1
        if not nxt:
            break
        counts = nxt
        srcs = nsrcs
    return b.s


def generate(seed, tier, rnd=0):
    rng = Rng(seed * 31 + 8)
    cats = {c["entry"]: c for c in catalogue() if c["entry"] in ("huffman(u8)", "huffman(u16)")}
    out = []
    n = {"quick": 60, "thorough": 800, "search": 250}[tier]
    for i in range(n):
        cat = cats["huffman(u16)"] if i % 3 == 0 else cats["huffman(u8)"]
        kind = i % 5
        out.append(script(cat, rng.fork(), kind))
    # bounded-exhaustive: all profiles over <= 3 symbols with counts <= 3 x all item sequences of <= 2 items of <= 3 symbols
    maxc = 3 if tier != "thorough" else 4
    for nsym in ((1, 2, 3) if rnd == 0 else ()):
        for cs in itertools.product(range(1, maxc + 1), repeat=nsym):
            prof = {10 + 7 * i: c for i, c in enumerate(cs)}
            syms = sorted(prof)
            allitems = [list(x) for ln in range(0, 4) for x in itertools.product(syms, repeat=ln)]
            step = max(1, len(allitems) * len(allitems) // (6 if tier == "quick" else 40))
            pairs = list(itertools.product(allitems, repeat=2))[::step]
            for a, b_ in pairs:
                out.append(script(cats["huffman(u8)"], rng.fork(), 4, exhaustive_prof=prof, items=[a, b_, a]))
    return out
