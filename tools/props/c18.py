"""C18: heap_size accounts for what is stored: used <= capacity, nothing omitted."""
from fcat import Rng, PRIMS, layout, index_of, rust_eq, shape
from props.regcommon import RB, entries
from vlib import parse_pairs

ID = "C18"
THEOREMS = [("FlatModel.Props.C18", t) for t in (
    "FC.C18.reach_capInv", "FC.C18.used_le_cap", "FC.C18.push_monotone", "FC.C18.pushes_monotone", "FC.C18.clear_caps",
    "FC.C18.clear_used", "FC.C18.clear_used_default", "FC.C18.clear_used_columns", "FC.C18.every_child_result",
    "FC.C18.every_child_tuple", "FC.C18.every_child_slice", "FC.C18.every_child_consec", "FC.C18.every_child_columns",
    "FC.C18.every_child_stack", "FC.C18.every_column_reported", "FC.C18.owned_exact", "FC.C18.vecIdx_exact",
    "FC.C18.lower_bound", "FC.C18.lower_bound_owned", "FC.C18.lower_bound_string", "FC.C18.lower_bound_slice")]
THEOREMS += [("FlatModel.Props.UniverseHeap", "FC.Universe." + t) for t in ("C18_every_composition", "C18_default_floor", "C18_clear_caps_every_composition", "C18_clear_default_every_composition", "C18_clear_columns")]
LEAN_TARGETS = ["FlatModel.Generated.CoveredHeap", "FlatModel.Generated.CoveredUniverseOps"]
PROFILES = {"quick": ["checked", "wrapping"], "thorough": ["checked", "wrapping"], "search": ["checked"]}
RULE = ("histories (push in any form, clear, reserve) on every entry that implements heap_size and on FlatStacks; after every step: "
        "every pair has used <= capacity, the summed used bytes are at least a lower bound computed from the shadow (payload bytes "
        "of strings and owned elements, one index entry per slice element / row cell / consecutive offset kept in a Vec container, "
        "after deduplication) and never decrease on a push; after clear no reported capacity shrinks and the used bytes equal "
        "those of a default region (plus retained empty columns); value mixes are skewed so that single branches (only Err, only "
        "the last tuple field, only a late column) are the sole contributors; non-trivial when >= 2 children hold data")


def size_of_prim(p):
    return 24 if p == "string_t" else PRIMS[p][1]


def dedup(sh, seq):
    out = []
    for v in seq:
        if out and rust_eq(sh, v, out[-1]):
            continue
        out.append(v)
    return out


def lower(t, seq):
    """lower bound on used heap bytes after pushing the values `seq` (in order) into a region of type t"""
    k = t.kind
    a = t.args
    if k == "mirror":
        return 0
    if k == "owned":
        return sum(len(v) for v in seq) * size_of_prim(a[0].kind)
    if k == "vecregion":
        return len(seq) * size_of_prim(a[0].kind)
    if k == "string":
        return lower(a[0], seq)
    if k == "codec":
        return sum(1 for v in seq if len(v))
    if k == "huffman":
        return 0
    if k == "option":
        return lower(a[0], [v[0] for v in seq if v is not None])
    if k == "result":
        return lower(a[0], [v[1] for v in seq if v[0] == "ok"]) + lower(a[1], [v[1] for v in seq if v[0] == "err"])
    if k == "tuple":
        return sum(lower(x, [v[i] for v in seq]) for i, x in enumerate(a))
    if k == "collapse":
        return lower(a[0], dedup(shape(a[0]), seq))
    if k == "consec":
        return lower(a[0], seq) + ((len(seq) + 1) * 8 if a[1].kind == "vec" else 0)
    if k == "slice":
        flat = [x for v in seq for x in v]
        ix = layout(index_of(a[0]))[0]
        return lower(a[0], flat) + (len(flat) * ix if a[1].kind == "vec" else 0)
    if k == "columns":
        ncols = max([len(v) for v in seq] + [0])
        ix = layout(index_of(a[0]))[0]
        tot = sum(lower(a[0], [v[c] for v in seq if len(v) > c]) for c in range(ncols))
        tot += sum(len(v) for v in seq) * ix
        tot += (len(seq) + 1) * 8 if a[1].kind == "vec" else 0
        return tot
    raise ValueError(k)


def total_used(reply):
    p = parse_pairs(reply)
    return None if p is None else sum(u for u, _ in p)


def one(cat, rng, stack, skew):
    b = RB(ID, cat, rng, stack)
    b.new("a")
    b.new("z")
    t = cat["term"]
    last = None
    prev_heap = None
    vec_stack = stack == "vec"
    ix = layout(index_of(t))[0]
    for _ in range(2 + rng.below(14)):
        r = rng.below(12)
        if r == 0:
            hb = b.raw("heap a", None, cmp="heap", shape="heap")
            b.clear("a")
            hz = b.raw("heap z", None, cmp="heap", shape="heap")

            def after_clear(got, replies, hb=hb, hz=hz, columns=t.has("columns")):
                now, before, dflt = parse_pairs(got), parse_pairs(replies[hb]), parse_pairs(replies[hz])
                if now is None or before is None or dflt is None:
                    return None
                if len(now) == len(before) and any(c1 < c0 for (_, c1), (_, c0) in zip(now, before)):
                    return "a capacity shrank on clear"
                if not columns and sorted(u for u, _ in now) != sorted(u for u, _ in dflt):
                    return "used bytes after clear differ from a default region's"
                if sum(u for u, _ in now) > sum(u for u, _ in before):
                    return "used bytes grew on clear"
                return None
            b.raw("heap a", ("pred", after_clear, "clear drops the payload, keeps the capacities"), cmp="heap",
                  sig="heap-after-clear@" + b.entry, shape="heap")
            b.s.noshrink = True
            prev_heap = None
            continue
        if r == 1:
            # heap_size of a region fresh from merge_regions / merge_capacity (structure sized from the source, nothing
            # stored yet): its used bytes are compared with the model's, e.g. the struct bytes of the merged columns
            b.merge("m", ["a"])

            def merged_ok(got, replies):
                p = parse_pairs(got)
                if p is None:
                    return "pairs"
                return next(("used %d > capacity %d" % (u, c) for u, c in p if u > c), None)
            b.raw("heap m", ("pred", merged_ok, "used <= capacity after merge_regions"), cmp="heap",
                  sig="heap-after-merge@" + b.entry, shape="heap")
            continue
        v = skewed(b, rng, skew, last)
        last = v
        b.push("a", v, b.form_for(v))
        want = lower(t, b.h["a"].vals) + (len(b.h["a"].vals) * ix if vec_stack else 0)
        ph = prev_heap

        def pred(got, replies, want=want, ph=ph):
            p = parse_pairs(got)
            if p is None:
                return "pairs"
            for u, c in p:
                if u > c:
                    return "used %d > capacity %d" % (u, c)
            tot = sum(u for u, _ in p)
            if tot < want:
                return "used bytes %d below what is stored (>= %d)" % (tot, want)
            if ph is not None:
                before = total_used(replies[ph])
                if before is not None and tot < before:
                    return "used bytes decreased on push (%d -> %d)" % (before, tot)
            return None
        prev_heap = b.raw("heap a", ("pred", pred, "used <= capacity, nothing omitted, monotone"), cmp="heap",
                          sig="heap-accounting@" + b.entry, shape="heap")
        b.s.noshrink = True
        if want > 0 and len(b.h["a"].vals) >= 2:
            b.s.nontrivial = True
    return b.s


def skewed(b, rng, skew, last):
    """values biased to one branch: only Err / only None / long late fields"""
    for _ in range(6):
        v = b.value(last if b.collapse else None)
        if skew == 0:
            return v
        sh = b.sh
        if b.term.kind == "columns" and skew == 2 and isinstance(v, list) and len(v) >= 2:
            # leading cells empty, payload only in a late column
            k = 1 + b.rng.below(len(v) - 1)
            e = b"" if isinstance(v[0], bytes) else ([] if isinstance(v[0], list) else v[0])
            # long enough that omitting it cannot hide behind the structural bytes of the columns vector
            late = [((x * 80 if len(x) < 50 else x) if x else b"payload " * 40) if isinstance(x, bytes) else x for x in v[k:]]
            return [e] * k + late
        if sh[0] == "res" and v[0] == ("ok" if skew == 1 else "err"):
            continue
        if sh[0] == "opt" and ((v is None) == (skew == 1)):
            continue
        return v
    return v


def generate(seed, tier):
    rng = Rng(seed * 71 + 17)
    per = {"quick": 9, "thorough": 120, "search": 45}[tier]
    out = []
    for cat in entries(lambda c: c["caps"]["heap"]):
        for i in range(per):
            out.append(one(cat, rng.fork(), None, i % 3))
        for st in cat["stacks"]:
            for i in range(max(1, per // 3)):
                out.append(one(cat, rng.fork(), st, i % 3))
    return out
