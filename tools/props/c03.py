"""C03: FlatStack is a faithful append-only sequence for every index container."""
from fcat import Rng
from props.regcommon import RB, entries

ID = "C03"
THEOREMS = [("FlatModel.Props.C03", t) for t in ("FC.C03.rep_default", "FC.C03.rep_copy", "FC.C03.observers", "FC.C03.rep_clear",
                                                  "FC.C03.rep_extend", "FC.C03.rep_fromIter", "FC.C03.iter_spec")]
LEAN_TARGETS = ["FlatModel.Generated.Covered"]
PROFILES = {"quick": ["checked", "wrapping"], "thorough": ["checked", "wrapping"], "search": ["checked"]}
RULE = ("histories of copy / extend / from_iter / clear / clone / clone_from (into a pre-filled stack) / reserve over every catalogued region x every admissible index "
        "container, observed through len, is_empty, get(i) for all i < len, get(len), get(len+1), get(usize::MAX), iteration with "
        "size hints and a cloned iterator; oracle = list of copied values; non-trivial when the stack holds >= 3 items and is "
        "observed through get, iter and an out-of-range get")


def observe(b, name):
    vals = b.h[name].vals
    n = len(vals)
    b.raw("x %s slen" % name, ("eq", "val %d" % n), sig="stack-len", shape="len")
    b.raw("x %s sisempty" % name, ("eq", "val %d" % (1 if n == 0 else 0)), sig="stack-is_empty", shape="isempty")
    b.raw("x %s siter" % name, ("eq", "iter [%s] hints 1 clone 1" % ",".join(b.r(v) for v in vals)), sig="stack-iter", shape="iter%d" % min(n, 4))
    for k in range(n):
        b.read(name, k, sig="stack-get")
    for k in (n, n + 1, (1 << 64) - 1):
        b.raw("read %s #%d" % (name, k), ("eq", "panic"), sig="stack-get-out-of-range", shape="oob")
    if n >= 3:
        b.s.nontrivial = True


def one(cat, rng, stack, n):
    b = RB(ID, cat, rng, stack)
    b.new("a")
    forms_all = [f for f in cat["forms"] if f not in cat["array_forms"] and f != "item"]
    for _ in range(n):
        r = rng.below(13)
        if r == 12 and cat["caps"]["clone"] and "d" not in b.h:
            # clone_from into a stack with an unrelated history of its own (longer or shorter, spilled or still strided):
            # afterwards it is the sequence of the source, nothing of its former self (round 9: a clone_from of the
            # index container that kept the destination's spilled entries was seen by C09 only)
            b.new("d")
            for _ in range(rng.below(7)):
                v = b.value()
                b.push("d", v, b.form_for(v))
            b.raw("clone_from d a", ("eq", "ok"), shape="clone_from")
            b.h["d"].vals = list(b.h["a"].vals)
            b.h["d"].last_pushed = b.h["a"].last_pushed
            observe(b, "d")
        elif r < 5:
            v = b.value()
            b.push("a", v, b.form_for(v))
        elif r < 7:
            vs = [b.value() for _ in range(rng.below(5))]
            f = rng.pick(forms_all)
            opx = rng.pick(["sextend", "sextendl"])      # exact-size iterator / iterator without a useful size hint
            b.raw("x a %s %s [%s]" % (opx, f, ",".join(b.r(v) for v in vs)), ("eq", "ok"), sig="stack-extend", shape="ext%d" % len(vs))
            push_all(b, "a", vs)
        elif r < 8:
            vs = [b.value() for _ in range(rng.below(5))]
            f = rng.pick(forms_all)
            opx = rng.pick(["sfrom", "sfroml"])
            b.raw("x a %s %s [%s]" % (opx, f, ",".join(b.r(v) for v in vs)), ("eq", "ok"), sig="stack-from_iter", shape="from%d" % len(vs))
            b.h["a"].vals = []
            push_all(b, "a", vs)
        elif r < 9:
            b.clear("a")
        elif r < 10:
            b.raw("x a sreserve %d" % rng.below(64), ("eq", "ok"), shape="reserve")
        elif r < 11 and cat["caps"]["clone"]:
            b.clone("c", "a")
            observe(b, "c")
        observe(b, "a")
    return b.s


def clone_from_short(cat, rng, stack):
    """clone_from of a *short* source (empty, cleared, or one or two items: its index container has not left its compact
    representation) into a destination with a longer history of its own (its container usually has): the destination must
    become the source's sequence and forget everything else (round 9)."""
    b = RB(ID, cat, rng, stack)
    b.new("d")
    for _ in range(3 + rng.below(6)):
        v = b.value()
        b.push("d", v, b.form_for(v))
    b.new("a")
    mode = rng.below(3)
    if mode >= 1:
        for _ in range(1 + rng.below(2 if mode == 1 else 4)):
            v = b.value()
            b.push("a", v, b.form_for(v))
    if mode == 2:
        b.clear("a")
    b.raw("clone_from d a", ("eq", "ok"), shape="clone_from")
    b.h["d"].vals = list(b.h["a"].vals)
    b.h["d"].last_pushed = b.h["a"].last_pushed
    observe(b, "d")
    for _ in range(1 + rng.below(3)):
        v = b.value()
        b.push("d", v, b.form_for(v))
        observe(b, "d")
    b.s.nontrivial = True
    return b.s


def push_all(b, name, vs):
    # extend == repeated copy, including the collapse rule of the shadow
    for v in vs:
        h = b.h[name]
        from fcat import rust_eq
        if b.float_same and b.term.kind == "collapse" and h.vals and rust_eq(b.sh, v, h.vals[-1]):
            h.vals.append(h.vals[-1])
        else:
            h.vals.append(v)


def generate(seed, tier):
    rng = Rng(seed * 19 + 4)
    per = {"quick": 3, "thorough": 40, "search": 12}[tier]
    maxn = {"quick": 8, "thorough": 30, "search": 12}[tier]
    out = []
    for cat in entries():
        for st in cat["stacks"]:
            for i in range(per):
                out.append(one(cat, rng.fork(), st, 2 + rng.below(maxn)))
            if cat["caps"]["clone"]:
                for i in range({"quick": 2, "thorough": 12, "search": 4}[tier]):
                    out.append(clone_from_short(cat, rng.fork(), st))
    return out
