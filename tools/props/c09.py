"""C09: clone and clone_from yield equal, fully independent regions."""
from fcat import Rng
from props.regcommon import RB, entries
from props.hist import prehistory

ID = "C09"
THEOREMS = [("FlatModel.Props.C09", t) for t in ("FC.C09.clone_equal", "FC.C09.cloneFrom_equal", "FC.C09.clone_observe",
                                                  "FC.C09.cloneFrom_observe", "FC.sim_observe", "FC.reach_inv")]
THEOREMS += [("FlatModel.Props.UniverseOps", "FC.Universe." + t) for t in ("C09_every_composition", "C09_sim_every_composition", "C09_C10_reach_every_composition", "reach_inv_every_composition")]
LEAN_TARGETS = ["FlatModel.Generated.Covered", "FlatModel.Generated.CoveredOps", "FlatModel.Generated.CoveredUniverseOps"]
PROFILES = {"quick": ["checked", "wrapping"], "thorough": ["checked", "wrapping"], "search": ["checked"]}
RULE = ("history -> clone, or clone_from into a destination pre-filled by an unrelated history (longer, shorter, more or fewer "
        "columns, other variants) -> the same continuation on both copies (indices compared impl vs impl) -> divergent "
        "continuations -> every ordinal re-read on both; non-trivial when destination and source of clone_from differ in "
        "length before the call")
ASSUMPTIONS = ["aliasing / independence of the two Rust values is the borrow checker's; the differential run (mutate one, re-read the other) is the evidence for it"]


def one(cat, rng, stack):
    b = RB(ID, cat, rng, stack)
    b.idx_cmp = "status"   # index values are opaque here: equality is checked between the two real regions
    b.new("s")
    last = prehistory(b, "s", 1 + rng.below(8))
    use_from = rng.below(2) == 0
    if use_from:
        b.new("d")
        prehistory(b, "d", rng.below(10))
        if len(b.h["d"].vals) != len(b.h["s"].vals):
            b.s.nontrivial = True
        b.raw("clone_from d s", ("eq", "ok"), shape="clone_from")
        b.h["d"].vals = list(b.h["s"].vals)
        b.h["d"].last_pushed = b.h["s"].last_pushed
    else:
        b.clone("d", "s")
        b.s.nontrivial = len(b.h["s"].vals) > 0
    b.readall("d", sig="clone-reads-differ@" + b.entry)
    # identical continuation on both: identical answers
    for _ in range(1 + rng.below(5)):
        v = b.value(last if b.collapse else None)
        last = v
        f = b.form_for(v)
        ks, ns = b.push("s", v, f)
        kd, nd = b.push("d", v, f)
        b.s.lines[nd].exp = ("same", ns)
        b.s.lines[nd].sig = "clone-answers-differently@" + b.entry
        b.read("d", kd, sig="clone-reads-differ@" + b.entry)
    # divergence: mutate one, the other must not notice
    r = rng.below(3)
    if r == 0:
        b.clear("s")
    else:
        for _ in range(1 + rng.below(4)):
            v = b.value()
            b.push("s" if r == 1 else "d", v, b.form_for(v))
    b.readall("s", sig="clone-not-independent@" + b.entry)
    b.readall("d", sig="clone-not-independent@" + b.entry)
    return b.s


def coded_one(cat, rng):
    """coded (Huffman) compositions in their *encoded* state: both sides of clone_from are merged regions with
    different histories; every value comes from a pool covered by the statistics"""
    b = RB(ID, cat, rng)
    b.idx_cmp = "status"   # index values are opaque here: equality is checked between the two real regions
    pool = [b.value() for _ in range(2 + rng.below(4))]
    b.new("r")
    for v in pool:
        b.push("r", v, b.form_for(v))
    b.merge("s", ["r"])
    for _ in range(rng.below(6)):
        v = rng.pick(pool)
        b.push("s", v, b.form_for(v))
    use_from = rng.below(3) != 0
    if use_from:
        if rng.below(3) == 0:
            b.new("d")            # raw destination
        else:
            b.merge("d", ["r"])   # encoded destination with its own bit count
        for _ in range(rng.below(6)):
            v = rng.pick(pool)
            b.push("d", v, b.form_for(v))
        if len(b.h["d"].vals) != len(b.h["s"].vals):
            b.s.nontrivial = True
        b.raw("clone_from d s", ("eq", "ok"), shape="clone_from")
        b.h["d"].vals = list(b.h["s"].vals)
    else:
        b.clone("d", "s")
        b.s.nontrivial = True
    b.readall("d", sig="clone-reads-differ@" + b.entry)
    for _ in range(1 + rng.below(5)):
        v = rng.pick(pool)
        f = b.form_for(v)
        ks, ns = b.push("s", v, f)
        kd, nd = b.push("d", v, f)
        b.s.lines[nd].exp = ("same", ns)
        b.s.lines[nd].sig = "clone-answers-differently@" + b.entry
        b.read("d", kd, sig="clone-reads-differ@" + b.entry)
    for _ in range(1 + rng.below(3)):
        v = rng.pick(pool)
        b.push("s", v, b.form_for(v))
    b.readall("s", sig="clone-not-independent@" + b.entry)
    b.readall("d", sig="clone-not-independent@" + b.entry)
    return b.s


def generate(seed, tier):
    rng = Rng(seed * 37 + 9)
    per = {"quick": 8, "thorough": 100, "search": 40}[tier]
    out = []
    for cat in entries(lambda c: c["caps"]["clone"]):
        for i in range(per):
            out.append(one(cat, rng.fork(), None))
        for st in cat["stacks"]:
            for i in range(max(1, per // 3)):
                out.append(one(cat, rng.fork(), st))
        if cat["caps"]["coded"]:
            for i in range(per * 2):
                out.append(coded_one(cat, rng.fork()))
    return out
