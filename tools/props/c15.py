"""C15: equality and ordering of read items match those of the owned values."""
from fcat import Rng
from props.regcommon import RB, entries

ID = "C15"
THEOREMS = [("FlatModel.Props.C15", t) for t in (
    "FC.C15.readSlice_eq", "FC.C15.readSlice_cmp", "FC.C15.readSlice_eq_cmp_indep", "FC.C15.lexCmp_refl", "FC.C15.lexCmp_antisymm",
    "FC.C15.lexCmp_trans", "FC.C15.lexCmp_eq_iff", "FC.C15.lexCmp_lawful", "FC.C15.listEq_iff_lexCmp_eq",
    "FC.C15.readSlice_cmp_eq_iff", "FC.C15.readSlice_cmp_antisymm", "FC.C15.readSlice_cmp_trans", "FC.C15.readSlice_eq_iff_cmp_eq")]
THEOREMS += [("FlatModel.Props.C15b", t) for t in (
    "FC.C15.wrapped_eq", "FC.C15.wrapped_cmp", "FC.C15.wrapped_cmp_arms", "FC.C15.wrapped_eq_cmp_indep", "FC.C15.wrapped_cmp_borrowAs", "FC.C15.huffman_items_cmp", "FC.C15.huffman_item_cmp_borrowed", "FC.C15.huffman_pushed_items_eq", "FC.C15.symsCmp_lawful", "FC.C15.symsCmp_lawful_nested", "FC.C15.wrapped_cmp_refl", "FC.C15.wrapped_cmp_eq_iff", "FC.C15.wrapped_cmp_antisymm", "FC.C15.wrapped_cmp_swap", "FC.C15.wrapped_cmp_trans", "FC.C15.wrapped_eq_iff_cmp_eq", "FC.Wrapped.sliceCmp_eq", "FC.Wrapped.sliceEq_eq")]
THEOREMS += [("FlatModel.Props.C14c", t) for t in (
    "FC.C14.huffman_cmpItems", "FC.C14.wrappedOK_cmp", "FC.C14.slice_wrappedOK_cmp", "FC.C14.iterEqBy_total", "FC.C14.iterCmpBy_total")]
PROFILES = {"quick": ["checked", "wrapping"], "thorough": ["checked", "wrapping"], "search": ["checked"]}
RULE = ("all pairs of items drawn from small value domains (prefixes of one another, equal content in different representations "
        "and different regions, different lengths) on every entry whose read item is Ord, including Huffman items across raw "
        "containers and containers encoded with two different codes over the same symbols; expected ==, cmp and partial_cmp computed from the owned values by the reference lexicographic order; "
        "non-trivial when the two items differ in representation or region, or one is a proper prefix of the other")


def cmp_vals(sh, a, b):
    k = sh[0]
    if k in ("nat", "char"):
        return (a > b) - (a < b)
    if k == "unit":
        return 0
    if k == "bytes":
        a, b = bytes(a), bytes(b)
        return (a > b) - (a < b)
    if k == "list":
        for x, y in zip(a, b):
            c = cmp_vals(sh[1], x, y)
            if c:
                return c
        return (len(a) > len(b)) - (len(a) < len(b))
    if k == "opt":
        if a is None or b is None:
            return (a is not None) - (b is not None)
        return cmp_vals(sh[1], a[0], b[0])
    if k == "res":
        if a[0] != b[0]:
            return -1 if a[0] == "ok" else 1
        return cmp_vals(sh[1] if a[0] == "ok" else sh[2], a[1], b[1])
    if k == "tup":
        for s, x, y in zip(sh[1], a, b):
            c = cmp_vals(s, x, y)
            if c:
                return c
        return 0
    raise ValueError(sh)


def related(b, rng, v):
    """a value close to v: itself, a prefix, an extension, or fresh"""
    r = rng.below(5)
    kind = b.sh[0]
    if kind == "bytes" and b.sh[1] and len(v) and r == 0:
        t = bytes(v).decode()
        return t[: rng.below(len(t))].encode()
    if kind in ("list", "bytes") and len(v) and r == 0:
        return v[: rng.below(len(v))]
    if kind == "list" and r == 1:
        w = b.value()
        return v + w[:1]
    if kind == "bytes" and r == 1:
        return bytes(v) + b"a"
    if r == 2:
        return v
    return b.value()


def one(cat, rng):
    b = RB(ID, cat, rng)
    b.new("a")
    b.new("c")
    huff = cat["term"].kind == "huffman"
    vals = []
    for _ in range(2 + rng.below(4)):
        v = b.value() if not vals else related(b, rng, rng.pick(vals))
        vals.append(v)
        b.push("a", v, b.form_for(v))
    target = "c"
    if huff:
        # second container encoded with the statistics of the first: same symbols, different representation
        b.merge("e", ["a"])
        target = "e"
    for v in vals:
        w = v if rng.below(2) else related(b, rng, v)
        if huff:
            w = v
        b.push(target, w, b.form_for(w))
    na, nc = len(b.h["a"].vals), len(b.h[target].vals)
    pairs = [(("a", i), (target, j)) for i in range(na) for j in range(nc)] + [(("a", i), ("a", j)) for i in range(na) for j in range(na)]
    if huff:
        # a third container encoded with a *different* code over the same symbols (skewed statistics): equal
        # content then occupies different bit ranges in "e" and "f"
        b.new("g")
        for v in vals:
            b.push("g", v, b.form_for(v))
        heavy = [x for x in vals if len(x)]
        if heavy:
            hv = rng.pick(heavy)
            sym = hv[rng.below(len(hv)):][:1]
            for _ in range(3 + rng.below(6)):
                w = sym * (4 + rng.below(12))
                b.push("g", w, b.form_for(w))
        b.merge("f", ["g"])
        for v in vals:
            b.push("f", v, b.form_for(v))
        nf = len(b.h["f"].vals)
        cross = [(("e", i), ("f", j)) for i in range(nc) for j in range(nf)] + [(("f", i), ("a", j)) for i in range(nf) for j in range(na)]
        pairs = pairs[:24] + cross[:24]
    for (h1, i), (h2, j) in pairs[: 48]:
        x, y = b.h[h1].vals[i], b.h[h2].vals[j]
        c = cmp_vals(b.sh, x, y)
        r1 = rng.pick(["backed", "borrowed"])
        r2 = rng.pick(["backed", "borrowed"])
        if r1 != r2 or h1 != h2:
            b.s.nontrivial = True
        b.raw("cmp %s #%d %s %s #%d %s" % (h1, i, r1, h2, j, r2), ("eq", "cmp %d %d %d" % (1 if c == 0 else 0, c, c)),
              sig="cmp-%s-%s" % (r1, r2), shape="cmp%d" % c)
    return b.s


def generate(seed, tier):
    rng = Rng(seed * 53 + 13)
    per = {"quick": 10, "thorough": 150, "search": 50}[tier]
    out = []
    for cat in entries(lambda c: c["ord"] and c["caps"]["clone"] or c["term"].kind == "huffman"):
        for i in range(per):
            out.append(one(cat, rng.fork()))
    return out
