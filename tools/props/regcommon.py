"""Region scripts: a builder that keeps the simplest possible shadow (the list of pushed values per
handle) next to the script and attaches the oracle's expectation to every line."""
import json
import os

import fcat
from fcat import Rng, parse, shape, render, gen_value, rust_eq
from vlib import Script, ROOT, val_shape, flatten_idx

_CAT = None


def catalogue():
    global _CAT
    if _CAT is None:
        _CAT = json.load(open(os.path.join(ROOT, "catalogue.json")))
        for c in _CAT:
            c["term"] = parse(c["entry"])
            c["shape"] = shape(c["term"])
    return _CAT


def entries(pred=lambda c: True):
    return [c for c in catalogue() if pred(c)]


def has_f64(sh):
    if sh[0] == "f64":
        return True
    if sh[0] in ("list", "opt"):
        return has_f64(sh[1])
    if sh[0] == "res":
        return has_f64(sh[1]) or has_f64(sh[2])
    if sh[0] == "tup":
        return any(has_f64(s) for s in sh[1])
    return False


class H:
    """shadow of one handle"""

    def __init__(self, name, cat, stack=None):
        self.name = name
        self.cat = cat
        self.vals = []
        self.last_pushed = None
        self.stack = stack


def empty_value(rng, sh):
    """the value of this shape with nothing in it (numbers are arbitrary)"""
    k = sh[0]
    if k == "bytes":
        return b""
    if k == "list":
        return []
    if k == "opt":
        return None if rng.below(3) == 0 else (empty_value(rng, sh[1]),)
    if k == "res":
        return ("ok", empty_value(rng, sh[1])) if rng.below(2) else ("err", empty_value(rng, sh[2]))
    if k == "tup":
        return [empty_value(rng, x) for x in sh[1]]
    return gen_value(rng, sh)


class RB:
    def __init__(self, prop, cat, rng, stack=None, tags=()):
        self.cat = cat
        self.term = cat["term"]
        self.sh = cat["shape"]
        self.rng = rng
        self.stack = stack
        self.entry = cat["entry"] if stack is None else "stack(%s,%s)" % (cat["entry"], stack)
        self.s = Script(prop, self.entry, tags)
        self.h = {}
        self.collapse = self.term.has("collapse")
        self.float_same = self.collapse and has_f64(self.sh)
        self.idx_cmp = "status"
        self.forms_used = set()
        # one script in six lives on degenerate values (empty strings / lists / rows at every leaf): states in which
        # offsets, strides and "last" markers stay at zero although items were pushed
        self.empty_mode = rng.fork().below(6) == 0

    # -- values
    def value(self, repeat_of=None):
        if repeat_of is not None and self.rng.chance(1, 2):
            return repeat_of
        if self.empty_mode and self.rng.below(8) != 0:
            return empty_value(self.rng, self.sh)
        return gen_value(self.rng, self.sh)

    def form_for(self, v, forms=None):
        fs = forms if forms is not None else self.cat["forms"]
        ok = []
        for f in fs:
            if f in self.cat["array_forms"] and not (isinstance(v, (list, bytes)) and len(v) <= 4):
                continue
            ok.append(f)
        return self.rng.pick(ok)

    def r(self, v):
        return render(self.sh, v)

    # -- operations
    def new(self, name):
        self.h[name] = H(name, self.cat, self.stack)
        self.s.add("new %s %s" % (name, self.entry), ("eq", "ok"))
        return name

    def same_pred(self, v):
        return ("eq", "item " + self.r(v))

    def push(self, name, v, form="own", expect="idx", sig=None, cmp=None):
        h = self.h[name]
        k = len(h.vals)
        self.forms_used.add(form)
        if isinstance(expect, tuple):
            exp = expect
        else:
            exp = ("prefix", "idx") if expect == "idx" else (("eq", "refused") if expect == "refused" else None)
        n = self.s.add("push %s %s %s" % (name, form, self.r(v)), exp, cmp=cmp or self.idx_cmp,
                       sig=sig or ("push:%s@%s" % (form, self.entry)), shape="push:" + val_shape(self.sh, v))
        if expect != "refused":
            self.record(name, v)
        return k, n

    def record(self, name, v):
        """the shadow of a successful push of `v` (by any line, also `pushitem`)"""
        h = self.h[name]
        # a top-level collapse over floats keeps the *first* of a run of `==` values (+0.0 / -0.0)
        if self.float_same and self.term.kind == "collapse" and h.vals and rust_eq(self.sh, v, h.vals[-1]):
            h.vals.append(h.vals[-1])
        else:
            h.vals.append(v)
        h.last_pushed = v

    def read(self, name, k, sig=None):
        h = self.h[name]
        return self.s.add("read %s #%d" % (name, k), self.same_pred(h.vals[k]), sig=sig or ("read@" + self.entry), shape="read")

    def readall(self, name, sig=None):
        h = self.h[name]
        if self.stack is not None:
            for k in range(len(h.vals)):
                self.read(name, k, sig)
            return None
        want = "all" + "".join(" item=" + self.r(v) for v in h.vals)
        return self.s.add("readall %s" % name, ("eq", want), sig=sig or ("readall@" + self.entry), shape="readall%d" % min(len(h.vals), 5))

    def clear(self, name):
        self.h[name].vals = []
        self.h[name].last_pushed = None
        return self.s.add("clear %s" % name, ("eq", "ok"), shape="clear")

    def merge(self, name, srcs):
        self.h[name] = H(name, self.cat, self.stack)
        return self.s.add("merge %s %s %s" % (name, self.entry, " ".join(srcs)), ("eq", "ok"), shape="merge%d" % len(srcs))

    def clone(self, name, src):
        h = H(name, self.cat, self.stack)
        h.vals = list(self.h[src].vals)
        h.last_pushed = self.h[src].last_pushed
        self.h[name] = h
        return self.s.add("clone %s %s" % (name, src), ("eq", "ok"), shape="clone")

    def raw(self, text, exp=None, cmp="exact", sig=None, shape=None):
        return self.s.add(text, exp, cmp, sig, shape)
