"""C13: read-item accessors expose exactly their own item and fail-stop out of bounds."""
from fcat import Rng, render
from props.regcommon import RB, entries

ID = "C13"
THEOREMS = [("FlatModel.Props.C13", t) for t in ("FC.C13.readSlice_get", "FC.C13.readSlice_backed_iter", "FC.C13.len_iter_agree",
                                                  "FC.C13.readColumns_get", "FC.C13.readColumns_backed_iter",
                                                  "FC.C13.readColumns_len_iter_agree", "FC.C13.stack_get")]
PROFILES = {"quick": ["checked", "wrapping"], "thorough": ["checked", "wrapping"], "search": ["checked"]}
RULE = ("regions holding several adjacent slice / row items; every item, every position i in 0..len+3 and a few huge i, both "
        "representations (region-backed, borrowed from the owned Vec), on slice/columns entries and FlatStacks over them; oracle: "
        "the i-th element for i < len, a panic otherwise; len / is_empty / iter / ExactSizeIterator::len agree, and so do the other "
        "ways of consuming the iterator (nth, skip, count, last, size hints at 0, 1, len/2, len-1, len, len+1); non-trivial when "
        "the probed item has a successor in the same storage")


def one(cat, rng, stack):
    b = RB(ID, cat, rng, stack)
    b.new("a")
    n = 2 + rng.below(5)
    for _ in range(n):
        v = b.value()
        b.push("a", v, b.form_for(v))
    vals = b.h["a"].vals
    for k, v in enumerate(vals):
        ln = len(v)
        for rp in ("backed", "borrowed"):
            b.raw("item a #%d %s len" % (k, rp), ("eq", "val %d" % ln), sig="item-len", shape="len")
            b.raw("item a #%d %s is_empty" % (k, rp), ("eq", "val %d" % (1 if ln == 0 else 0)), sig="item-is_empty", shape="isempty")
            b.raw("item a #%d %s iter" % (k, rp), ("eq", "val " + b.r(v)), sig="item-iter", shape="iter")
            b.raw("item a #%d %s iterlen" % (k, rp), ("eq", "val %d" % ln), sig="item-exact-size-len-%s" % rp, shape="iterlen")
            for i in list(range(ln + 3)) + [(1 << 63), (1 << 64) - 1]:
                if i < ln:
                    b.raw("item a #%d %s get %d" % (k, rp, i), ("eq", "val " + render(b.sh[1], v[i])), sig="item-get-wrong-element-%s" % rp, shape="get")
                else:
                    sig = "item-get-out-of-bounds-%s%s" % (rp, "-at-len" if i == ln else "")
                    b.raw("item a #%d %s get %d" % (k, rp, i), ("eq", "panic"), sig=sig, shape="oob")
        if k + 1 < len(vals):
            b.s.nontrivial = True
    if stack is not None:
        nn = len(vals)
        for k in (nn, nn + 1, (1 << 64) - 1):
            b.raw("read a #%d" % k, ("eq", "panic"), sig="stack-get-out-of-range", shape="soob")
    return b.s


def generate(seed, tier):
    rng = Rng(seed * 43 + 11)
    per = {"quick": 12, "thorough": 150, "search": 60}[tier]
    out = []
    for cat in entries(lambda c: c["term"].kind in ("slice", "columns")):
        for i in range(per):
            out.append(one(cat, rng.fork(), None))
        for st in cat["stacks"]:
            for i in range(max(1, per // 4)):
                out.append(one(cat, rng.fork(), st))
    return out
