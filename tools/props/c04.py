"""C04: string regions only ever hand out valid UTF-8 equal to a pushed string."""
from fcat import Rng
from props.regcommon import RB, entries
from props.hist import prehistory

ID = "C04"
THEOREMS = [("FlatModel.Props.C04", t) for t in ("FC.issued_reads", "FC.C04.string_reads_pushed", "FC.C04.string_reads_pushed'", "FC.C04.single_unsafe",
                                                  "FC.C04.string_write_paths_are_utf8", "FC.C04.storage_is_private")]
LEAN_TARGETS = ["FlatModel.Generated.Covered"]
PROFILES = {"quick": ["checked", "wrapping"], "thorough": ["checked", "wrapping"], "search": ["checked"]}
RULE = ("string-bearing compositions under push / clear / clone / clone_from / merge_regions / serde histories with strings of "
        "1-4 byte scalars, combining sequences, the empty string and adjacent multi-byte strings; every &str that leaves the crate "
        "(through index, ReadSlice and ReadColumns iteration) is re-validated with str::from_utf8 over its bytes in the harness and "
        "compared byte for byte with the shadow; plus the program-text facts (unsafe sites, Push impls of StringRegion) re-extracted "
        "from /repo/src; non-trivial when a multi-byte string is adjacent to another string in the same storage")


def stringy(c):
    return "string" in c["entry"]


def has_multibyte(v):
    if isinstance(v, bytes):
        return any(x >= 0x80 for x in v)
    if isinstance(v, (list, tuple)):
        return any(has_multibyte(x) for x in v)
    return False


def one(cat, rng, stack):
    b = RB(ID, cat, rng, stack)
    b.new("a")
    cur = "a"
    gen = 0
    coded = cat["caps"]["coded"]
    multi = 0
    for _ in range(3 + rng.below(12)):
        r = rng.below(16)
        if r < 10:
            v = b.value()
            if has_multibyte(v):
                multi += 1
            k, _ = b.push(cur, v, b.form_for(v), sig="string-push@" + b.entry)
            b.read(cur, k, sig="string-read-differs")
        elif r == 10:
            b.clear(cur)
        elif r == 11 and cat["caps"]["clone"]:
            gen += 1
            b.clone("a%d" % gen, cur)
            cur = "a%d" % gen
        elif r == 12 and cat["caps"]["serde"]:
            gen += 1
            n = "a%d" % gen
            b.raw("serde %s %s" % (n, cur), ("eq", "ok"), shape="serde")
            b.h[n] = b.h[cur].__class__(n, cat, stack)
            b.h[n].vals = list(b.h[cur].vals)
            b.h[n].last_pushed = b.h[cur].last_pushed
            cur = n
        elif r == 13 and not coded:
            gen += 1
            b.merge("a%d" % gen, [cur])
            cur = "a%d" % gen
        elif r == 14 and cat["caps"]["clone"]:
            gen += 1
            n = "a%d" % gen
            b.new(n)
            prehistory(b, n, rng.below(4), reserve=False)
            b.raw("clone_from %s %s" % (n, cur), ("eq", "ok"), shape="clone_from")
            b.h[n].vals = list(b.h[cur].vals)
            b.h[n].last_pushed = b.h[cur].last_pushed
            cur = n
        b.readall(cur, sig="string-read-differs")
    b.s.nontrivial = multi >= 1 and len(b.h[cur].vals) >= 1
    return b.s


def generate(seed, tier):
    rng = Rng(seed * 59 + 14)
    per = {"quick": 10, "thorough": 150, "search": 50}[tier]
    out = []
    for cat in entries(stringy):
        for i in range(per):
            out.append(one(cat, rng.fork(), None))
        for st in cat["stacks"][:1]:
            for i in range(max(1, per // 4)):
                out.append(one(cat, rng.fork(), st))
    return out
