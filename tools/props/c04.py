"""C04: string regions only ever hand out valid UTF-8 equal to a pushed string."""
from fcat import Rng
from props.regcommon import RB, entries
from props.hist import prehistory

ID = "C04"
THEOREMS = [("FlatModel.Props.C04", t) for t in ("FC.issued_reads", "FC.C04.string_reads_pushed", "FC.C04.string_reads_pushed'", "FC.C04.single_unsafe",
                                                  "FC.C04.string_write_paths_are_utf8", "FC.C04.storage_is_private")]
LEAN_TARGETS = ["FlatModel.Generated.Covered"]
PROFILES = {"quick": ["checked", "wrapping"], "thorough": ["checked", "wrapping"], "search": ["checked"]}
RULE = ("string-bearing compositions under push / clear / clone / clone_from / merge_regions / serde histories (for string(codec) also "
        "dictionaries merged from 12-190 distinct multi-byte strings with low first bytes, then re-pushed) with strings of "
        "1-4 byte scalars, combining sequences, the empty string and adjacent multi-byte strings; every &str that leaves the crate "
        "(through index, ReadSlice and ReadColumns iteration) is re-validated with str::from_utf8 over its bytes in the harness and "
        "compared byte for byte with the shadow; plus the program-text facts (unsafe sites, Push impls of StringRegion) re-extracted "
        "from /repo/src; non-trivial when a multi-byte string is adjacent to another string in the same storage")


def stringy(c):
    return "string" in c["entry"]


def has_multibyte(v):
    if isinstance(v, bytes):
        return any(x >= 0x80 for x in v)
    if isinstance(v, (list, tuple)):
        return any(has_multibyte(x) for x in v)
    return False


def one(cat, rng, stack):
    b = RB(ID, cat, rng, stack)
    b.new("a")
    cur = "a"
    gen = 0
    coded = cat["caps"]["coded"]
    multi = 0
    for _ in range(3 + rng.below(12)):
        r = rng.below(16)
        if r < 10:
            v = b.value()
            if has_multibyte(v):
                multi += 1
            k, _ = b.push(cur, v, b.form_for(v), sig="string-push@" + b.entry)
            b.read(cur, k, sig="string-read-differs")
        elif r == 10:
            b.clear(cur)
        elif r == 11 and cat["caps"]["clone"]:
            gen += 1
            b.clone("a%d" % gen, cur)
            cur = "a%d" % gen
        elif r == 12 and cat["caps"]["serde"]:
            gen += 1
            n = "a%d" % gen
            b.raw("serde %s %s" % (n, cur), ("eq", "ok"), shape="serde")
            b.h[n] = b.h[cur].__class__(n, cat, stack)
            b.h[n].vals = list(b.h[cur].vals)
            b.h[n].last_pushed = b.h[cur].last_pushed
            cur = n
        elif r == 13 and not coded:
            gen += 1
            b.merge("a%d" % gen, [cur])
            cur = "a%d" % gen
        elif r == 14 and cat["caps"]["clone"]:
            gen += 1
            n = "a%d" % gen
            b.new(n)
            prehistory(b, n, rng.below(4), reserve=False)
            b.raw("clone_from %s %s" % (n, cur), ("eq", "ok"), shape="clone_from")
            b.h[n].vals = list(b.h[cur].vals)
            b.h[n].last_pushed = b.h[cur].last_pushed
            cur = n
        b.readall(cur, sig="string-read-differs")
    b.s.nontrivial = multi >= 1 and len(b.h[cur].vals) >= 1
    return b.s


def merged_dictionary(cat, rng, wide):
    """string(codec): a dictionary built by merge_regions from a source with many distinct multi-byte strings whose first
    bytes are low (tab, digits) — more dictionary entries than the smallest observed first byte, so that the tag walk of
    `DictionaryCodec::new_from` has to step over occupied first bytes (round 9: a rewrite that lost the alignment of the
    decode table with the tags was seen by C07 only). Every string pushed into the merged region is one of the source's
    (all tagged: `C07.all_pushed_tagged`, fewer distinct strings than free tags) or the empty string; what is read back is
    re-validated as UTF-8 in the harness and compared byte for byte."""
    b = RB(ID, cat, rng, None)
    b.idx_cmp = "status"
    tails = ["\u00e9", "\u20ac", "\U0001d11e", "\u00e9\u20ac\U0001d11e", "a", ""]
    n = (130 + rng.below(60)) if wide else (12 + rng.below(40))
    vocab = []
    for i in range(n):
        head = "\t" if i == 0 else (str(i) if rng.below(4) else chr(97 + i % 5) + str(i))
        vocab.append((head + rng.pick(tails)).encode("utf-8"))
    vocab = list(dict.fromkeys(vocab))
    b.new("s")
    for w in vocab:
        for _ in range(1 + rng.below(2)):
            b.push("s", w, b.form_for(w), sig="string-push@" + b.entry)
    b.merge("t", ["s"])
    b.h["t"].merged = True
    for _ in range(len(vocab) + rng.below(8)):
        w = rng.pick(vocab) if rng.below(10) else b""
        k, _ = b.push("t", w, b.form_for(w), sig="string-push@" + b.entry)
        b.read("t", k, sig="string-read-differs")
    b.readall("t", sig="string-read-differs")
    b.s.nontrivial = True
    return b.s


def generate(seed, tier):
    rng = Rng(seed * 59 + 14)
    per = {"quick": 10, "thorough": 150, "search": 50}[tier]
    out = []
    for cat in entries(stringy):
        for i in range(per):
            out.append(one(cat, rng.fork(), None))
        for st in cat["stacks"][:1]:
            for i in range(max(1, per // 4)):
                out.append(one(cat, rng.fork(), st))
        if cat["entry"] == "string(codec)":
            for i in range({"quick": 6, "thorough": 60, "search": 20}[tier]):
                out.append(merged_dictionary(cat, rng.fork(), wide=(i % 3 == 2)))
    return out
