"""C14: IntoOwned laws hold and items copy faithfully between regions."""
from fcat import Rng
from props.regcommon import RB, entries
from props.hist import encoded_region

ID = "C14"
THEOREMS = [("FlatModel.Props.C14", t) for t in (
    "FC.C14.intoOwned_eq_index", "FC.C14.push_intoOwned", "FC.C14.borrowAs_intoOwned", "FC.C14.borrowAs_roundtrip",
    "FC.C14.cloneOnto_eq", "FC.C14.cloneOnto_eq_intoOwned", "FC.C14.reborrow_id", "FC.C14.copy_between_regions",
    "FC.C14.columns_intoOwned_eq_index", "FC.C14.columns_cloneOnto_eq", "FC.C14.columns_borrowAs_roundtrip",
    "FC.C14.columns_copy_between_regions", "FC.cloneOnto_list")]
THEOREMS += [("FlatModel.Props.C14b", t) for t in (
    "FC.C14.option_cloneOnto_eq", "FC.C14.option_cloneOnto_arms", "FC.C14.option_borrow_roundtrip", "FC.C14.option_reborrow_id", "FC.C14.result_cloneOnto_eq", "FC.C14.result_cloneOnto_arms", "FC.C14.result_borrow_roundtrip", "FC.C14.result_reborrow_id", "FC.C14.tuple_cloneOnto_eq", "FC.C14.tuple_borrow_roundtrip", "FC.C14.tuple_reborrow_id", "FC.C14.slice_cloneOnto_eq", "FC.C14.slice_borrow_roundtrip", "FC.C14.slice_reborrow_id", "FC.C14.readSlice_cloneOnto_is_slice", "FC.C14.readColumns_cloneOnto_is_slice", "FC.C14.cloneOnto_nested", "FC.C14.borrowAs_nested", "FC.C14.roundtrip_nested", "FC.C14.cloneOnto_overwrites", "FC.C14.wrapped_cloneOnto_eq", "FC.C14.wrapped_cloneOnto_eq_intoOwned", "FC.C14.wrapped_intoOwned_eq", "FC.C14.wrapped_borrow_roundtrip", "FC.C14.wrapped_reborrow_id", "FC.C14.item_bind_decode_eq_index", "FC.C14.item_decode_eq_index", "FC.C14.item_decodes", "FC.C14.huffman_push_intoOwned", "FC.C14.huffman_copy_between", "FC.C14.huffman_item_ok", "FC.C14.wrappedOK_ops", "FC.C14.readSliceOK_ops", "FC.SliceItem.cloneOnto_eq")]
THEOREMS += [("FlatModel.Props.C14c", t) for t in (
    "FC.C14.read_intoOwned", "FC.C14.intoOwnedAt_eq_index", "FC.C14.cloneOntoAt_eq_index", "FC.C14.cloneOntoAt_indep", "FC.C14.cloneOntoAt_isSome", "FC.C14.slice_items?_eq_iter", "FC.C14.slice_cloneOntoAt_backed", "FC.C14.slice_cloneOntoAt_borrowed", "FC.C14.itemRow_eq_readRow", "FC.C14.columns_cloneOntoAt_backed", "FC.C14.huffman_cmpItems", "FC.C14.iterEqBy_total", "FC.C14.iterCmpBy_total", "FC.C14.wrappedOK_cmp", "FC.C14.slice_wrappedOK_cmp", "FC.itemRow_map", "FC.mapM_map_congr", "FC.WrappedOK.some_intoOwned", "FC.WrappedOK.some_cloneOnto", "FC.WrappedOK.ops_eq'", "FC.WrappedOK.ofWrapped?_of_decode", "FC.Wrapped.intoOwned_isSome", "FC.Wrapped.cloneOnto_isSome",
    "FC.lawfulItems_mirror", "FC.lawfulItems_owned", "FC.lawfulItems_vec", "FC.lawfulItems_codec", "FC.lawfulItems_tupleNil", "FC.lawfulItems_string", "FC.lawfulItems_option", "FC.lawfulItems_result", "FC.lawfulItems_tupleCons", "FC.lawfulItems_slice", "FC.lawfulItems_columns", "FC.lawfulItems_collapse", "FC.lawfulItems_consec", "FC.lawfulItems_flatStack", "FC.lawfulItems_huffman", "FC.lawfulItems_huffU8")]
# every catalogued composition: the item model the driver answers through obeys `LawfulItemOps` (bridge to `index`)
LEAN_TARGETS = ["FlatModel.Generated.CoveredItems"]
PROFILES = {"quick": ["checked", "wrapping"], "thorough": ["checked", "wrapping"], "search": ["checked"]}
RULE = ("every read item of every catalogue entry: into_owned == pushed value; borrow_as(&into_owned(x)) renders / iterates equal "
        "to x; clone_onto(x, t) for prior targets t (empty, shorter, longer, other variant, nested, equal) leaves t == into_owned(x); "
        "reborrow(x) == x; pushing x itself (region-backed) or a borrow of its owned form into another region of the same type reads "
        "back equal; non-trivial when the clone_onto target is non-empty and differs from the item")


def one(cat, rng, stack):
    b = RB(ID, cat, rng, stack)
    b.new("a")
    b.new("d")
    n = 1 + rng.below(5)
    last = None
    for _ in range(n):
        v = b.value(last if b.collapse else None)
        last = v
        b.push("a", v, b.form_for(v))
    if rng.below(2):
        v = b.value()
        b.push("d", v, b.form_for(v))
    vals = list(b.h["a"].vals)
    for k, v in enumerate(vals):
        want = b.r(v)
        for rp in ("backed", "borrowed"):
            b.raw("item a #%d %s owned" % (k, rp), ("eq", "val " + want), sig="into_owned-differs", shape="owned")
            b.raw("item a #%d %s render" % (k, rp), ("eq", "item " + want), sig="borrow_as-differs" if rp == "borrowed" else "index-differs", shape="render")
            t = b.value() if rng.below(4) else v
            if t != v and t not in (None, [], b""):
                b.s.nontrivial = True
            b.raw("item a #%d %s cloneonto %s" % (k, rp, b.r(t)), ("eq", "val " + want), sig="clone_onto-differs-%s" % rp, shape="cloneonto")
        if stack is None:
            b.raw("item a #%d backed reborrow" % k, ("eq", "item " + want), sig="reborrow-differs", shape="reborrow")
        if cat["item"] and stack is None:
            for rp in ("backed", "borrowed"):
                kd = len(b.h["d"].vals)
                b.raw("pushitem d a #%d %s" % (k, rp), ("prefix", "idx"), cmp="status", sig="push-read-item-%s" % rp, shape="pushitem")
                b.record("d", v)
                b.read("d", kd, sig="copied-item-differs-%s" % rp)
    if stack is None:
        b.readall("d", sig="copied-item-differs")
        b.readall("a", sig="source-changed-by-copy")
    return b.s


def encoded(cat, rng):
    """read items of Huffman-coded compositions in their *encoded* representation"""
    b = RB(ID, cat, rng)
    pool = encoded_region(b, rng, "a")
    b.merge("d", ["r0"])
    for _ in range(1 + rng.below(5)):
        v = rng.pick(pool)
        b.push("a", v, b.form_for(v))
    vals = list(b.h["a"].vals)
    for k, v in enumerate(vals):
        want = b.r(v)
        for rp in ("backed", "borrowed"):
            b.raw("item a #%d %s owned" % (k, rp), ("eq", "val " + want), sig="into_owned-differs-encoded", shape="owned")
            b.raw("item a #%d %s render" % (k, rp), ("eq", "item " + want), sig="borrow_as-differs-encoded", shape="render")
            t = rng.pick(pool)
            if t != v and len(t):
                b.s.nontrivial = True
            b.raw("item a #%d %s cloneonto %s" % (k, rp, b.r(t)), ("eq", "val " + want), sig="clone_onto-differs-encoded-%s" % rp, shape="cloneonto")
            kd = len(b.h["d"].vals)
            b.raw("pushitem d a #%d %s" % (k, rp), ("prefix", "idx"), cmp="status", sig="push-read-item-encoded-%s" % rp, shape="pushitem")
            b.record("d", v)
            b.read("d", kd, sig="copied-item-differs-encoded-%s" % rp)
    b.readall("d", sig="copied-item-differs-encoded")
    b.readall("a", sig="source-changed-by-copy")
    return b.s


def generate(seed, tier):
    rng = Rng(seed * 47 + 12)
    per = {"quick": 8, "thorough": 100, "search": 40}[tier]
    out = []
    for cat in entries():
        for i in range(per):
            out.append(one(cat, rng.fork(), None))
        for st in cat["stacks"][:1]:
            for i in range(max(1, per // 4)):
                out.append(one(cat, rng.fork(), st))
        if cat["term"].has("huffman") and cat["item"]:
            for i in range(per * 2):
                out.append(encoded(cat, rng.fork()))
    return out
