"""C12: consecutive-pair and columns regions issue dense indices 0,1,2,..."""
from fcat import Rng
from props.regcommon import RB, entries

ID = "C12"
THEOREMS = [("FlatModel.Props.C11", t) for t in ("FC.C12.kth", "FC.C12.count_default", "FC.C12.count_clear")] + [
    ("FlatModel.Props.C12", t) for t in ("FC.C12.columns_kth", "FC.C12.columns_row_exact", "FC.C12.count_merge")]
THEOREMS += [("FlatModel.Props.UniverseOps", "FC.Universe.C12_merge_every_consec")]
LEAN_TARGETS = ["FlatModel.Generated.Covered"]
PROFILES = {"quick": ["checked", "wrapping"], "thorough": ["checked", "wrapping"], "search": ["checked"]}
RULE = ("push sequences with empty items and ragged rows 0..6 wide in any order on every consec(..)/columns(..) entry, across "
        "clear and merge_regions; oracle: returned index == number of pushes since creation/merge/clear, index k reads the k-th "
        "item with exactly its own length; non-trivial with >= 1 empty and >= 1 non-empty item (for columns: a row wider than all "
        "before)")


def one(cat, rng, n):
    b = RB(ID, cat, rng)
    b.idx_cmp = "idx"
    b.new("a")
    cur = "a"
    gen = 0
    empties = nonempties = 0
    widest = -1
    wider_later = False
    coded = cat["caps"]["coded"]
    allowed = None   # coded regions: after a merge only values covered by the sources' statistics
    for _ in range(n):
        r = rng.below(14)
        if r == 0:
            b.clear(cur)
            allowed = None
            continue
        if r == 1:
            gen += 1
            nxt = "a%d" % gen
            srcs = [cur] if (rng.below(2) or coded) else []
            if coded:
                if not b.h[cur].vals:
                    continue
                allowed = list(b.h[cur].vals)
            b.merge(nxt, srcs)
            cur = nxt
            continue
        v = b.value() if allowed is None else rng.pick(allowed)
        k, ln = b.push(cur, v, b.form_for(v), expect=("eq", "idx %d" % len(b.h[cur].vals)), sig="dense-index@" + b.entry)
        if isinstance(v, (list, bytes)):
            if len(v) == 0:
                empties += 1
            else:
                nonempties += 1
            if len(v) > widest:
                if widest >= 0:
                    wider_later = True
                widest = len(v)
        b.read(cur, k, sig="kth-item@" + b.entry)
        if rng.below(3) == 0:
            b.readall(cur, sig="kth-item@" + b.entry)
    b.readall(cur, sig="kth-item@" + b.entry)
    b.s.nontrivial = empties > 0 and nonempties > 0 and (cat["term"].kind != "columns" or wider_later)
    return b.s


def generate(seed, tier):
    rng = Rng(seed * 29 + 6)
    per = {"quick": 25, "thorough": 400, "search": 120}[tier]
    out = []
    for cat in entries(lambda c: c["term"].kind in ("consec", "columns")):
        for i in range(per):
            out.append(one(cat, rng.fork(), 2 + rng.below(16)))
    return out
