"""C16: serialisation round trip preserves contents and future behaviour."""
from fcat import Rng
from props.regcommon import RB, entries, has_f64
from props.hist import prehistory
from vlib import parse_pairs

ID = "C16"
THEOREMS = [("FlatModel.Props.C16", t) for t in (
    "FC.C16.de_ser", "FC.C16.continuation", "FC.C16.continuation_sim", "FC.C16.continuation_reach", "FC.C16.de_ser_idx",
    "FC.C16.collapse_last_preserved", "FC.C16.consec_bookkeeping_preserved", "FC.C16.optimized_state_preserved",
    "FC.C16.list_state_preserved", "FC.C16.columns_preserved", "FC.C16.stack_preserved")]
THEOREMS += [("FlatModel.Props.UniverseSer", "FC.Universe." + t) for t in ("C16_every_composition", "C16_reachable", "C16_reach", "C16_twice", "C16_every_shape", "C16_every_index_container")]
LEAN_TARGETS = ["FlatModel.Generated.CoveredSer", "FlatModel.Generated.CoveredOps", "FlatModel.Generated.CoveredUniverseOps"]
PROFILES = {"quick": ["checked", "wrapping"], "thorough": ["checked", "wrapping"], "search": ["checked"]}
RULE = ("histories on every serde-enabled entry, FlatStack and index container, serialised with serde_json at an arbitrary point and "
        "deserialised; both copies are driven through the same continuation: returned indices, reads, used heap bytes (index "
        "compression and deduplication decisions) compared step by step; the serialised tree of the real region is compared "
        "structurally with the model's (struct nodes as multisets of field values, so renames/reorders are not alarms, a skipped or "
        "lossy field is); non-trivial when the serialised state holds non-default bookkeeping (>= 2 items pushed). f64 payloads and "
        "nested options as FlatStack indices are excluded: JSON cannot carry NaN or distinguish Some(None) from None")
ASSUMPTIONS = ["serde_derive and serde_json are trusted; the theorem is about the field lists"]


def used(reply):
    p = parse_pairs(reply)
    return None if p is None else sorted(u for u, _ in p)


def usable(cat, stack):
    if not cat["caps"]["serde"]:
        return False
    if has_f64(cat["shape"]):
        return False
    if stack is not None and cat["entry"].startswith("option(option("):
        return False
    return True


def one(cat, rng, stack):
    b = RB(ID, cat, rng, stack)
    b.idx_cmp = "status"   # index values are opaque here: equality is checked between the two real regions
    b.new("a")
    last = prehistory(b, "a", 1 + rng.below(10), reserve=False)
    if len(b.h["a"].vals) >= 2:
        b.s.nontrivial = True
    if "char" not in cat["entry"]:
        b.raw("ser a", ("prefix", "tree "), cmp="tree", sig="serialised-tree@" + b.entry, shape="ser")
    b.raw("serde d a", ("eq", "ok"), sig="deserialise-failed@" + b.entry, shape="serde")
    b.h["d"] = b.h["a"].__class__("d", cat, stack)
    b.h["d"].vals = list(b.h["a"].vals)
    b.h["d"].last_pushed = b.h["a"].last_pushed
    b.readall("d", sig="deserialised-reads-differ@" + b.entry)
    for _ in range(1 + rng.below(6)):
        v = b.value(last if b.collapse else None)
        if rng.below(3) == 0 and b.h["a"].vals:
            v = b.h["a"].vals[-1]      # repeat: deduplication decisions must match
        last = v
        f = b.form_for(v)
        ka, na = b.push("a", v, f)
        kd, nd = b.push("d", v, f)
        b.s.lines[nd].exp = ("same", na)
        b.s.lines[nd].sig = "deserialised-answers-differently@" + b.entry
        b.read("d", kd, sig="deserialised-reads-differ@" + b.entry)
        if cat["caps"]["heap"]:
            ha = b.raw("heap a", None, cmp="none", shape="heap")
            b.raw("heap d", ("rel", ha, lambda got, other: None if used(got) == used(other) else "used bytes differ", "same compression decisions"),
                  cmp="none", sig="deserialised-stores-differently@" + b.entry, shape="heap")
    b.readall("d", sig="deserialised-reads-differ@" + b.entry)
    b.readall("a", sig="source-changed-by-serialisation@" + b.entry)
    return b.s


def idx_scripts(rng, n):
    from props import idxcommon as ic
    from vlib import Script
    out = []
    for _ in range(n):
        kind = rng.pick(ic.CONTAINERS)
        st = rng.pick([0, 1, 2, 7, 1 << 32, 1 << 63])
        al = ic.alphabet(st)
        s = Script(ID, kind)
        s.add("new c %s" % kind)
        cur = []
        for i in range(1 + rng.below(10)):
            x = rng.pick(al) if rng.below(3) else (i * st) % ic.USIZE
            s.add("ipush c %d" % x, ("eq", "ok"), shape="p")
            cur.append(x)
        s.add("serde d c", ("eq", "ok"), sig="deserialise-failed@" + kind, shape="serde")
        s.add("iobs d", ("eq", ic.obs_line(kind, cur, True)), sig="deserialised-container-differs@" + kind, shape="o")
        for i in range(1 + rng.below(6)):
            x = rng.pick(al) if rng.below(2) else cur[-1]
            s.add("ipush d %d" % x, ("eq", "ok"), shape="p")
            s.add("ipush c %d" % x, ("eq", "ok"), shape="p")
            cur.append(x)
            o1 = s.add("iobs c", ("eq", ic.obs_line(kind, cur, True)), sig="iobs@" + kind, shape="o")
            s.add("iobs d", ("same", o1), sig="deserialised-container-differs@" + kind, shape="o")
        s.nontrivial = len(cur) > 3
        out.append(s)
    return out


def generate(seed, tier):
    rng = Rng(seed * 67 + 16)
    per = {"quick": 8, "thorough": 100, "search": 40}[tier]
    out = []
    for cat in entries():
        if usable(cat, None):
            for i in range(per):
                out.append(one(cat, rng.fork(), None))
        for st in cat["stacks"]:
            if usable(cat, st):
                for i in range(max(1, per // 3)):
                    out.append(one(cat, rng.fork(), st))
    out += idx_scripts(rng, {"quick": 60, "thorough": 600, "search": 200}[tier])
    return out
