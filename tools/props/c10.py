"""C10: pre-sizing is semantically invisible; merged regions start empty and work."""
from fcat import Rng
from props.regcommon import RB, entries
from props.hist import prehistory

ID = "C10"
THEOREMS = [("FlatModel.Props.C09", t) for t in ("FC.C10.reserveItems_invisible", "FC.C10.reserveRegions_invisible",
                                                  "FC.C10.merge_fresh", "FC.C10.stack_reserve_invisible",
                                                  "FC.C10.stack_withCapacity_default", "FC.C02.frame_reserve", "FC.reach_inv")]
THEOREMS += [("FlatModel.Props.UniverseOps", "FC.Universe." + t) for t in ("C10_every_composition", "C10_merge_every_composition", "C10_merged_empty", "C10_stack_every_composition", "huffman_not_lawfulMerge", "huffmanU8_not_lawfulMerge")]
LEAN_TARGETS = ["FlatModel.Generated.Covered", "FlatModel.Generated.CoveredOps", "FlatModel.Generated.CoveredUniverseOps"]
PROFILES = {"quick": ["checked", "wrapping"], "thorough": ["checked", "wrapping"], "search": ["checked"]}
RULE = ("twin runs: the same pushes with and without interleaved reserve_items / reserve_regions / FlatStack::reserve / "
        "with_capacity calls (arbitrary, also wrong, announcements), indices and reads compared step by step; merge_regions / "
        "merge_capacity over 0..3 source regions with arbitrary histories (including the target's own ancestors), the merged "
        "region compared with a twin default under the same continuation; non-trivial when the announced items/regions are "
        "non-empty; coded (dictionary / Huffman) compositions: merged regions start empty and accept and read back everything "
        "their sources held, over two merge generations (a merged coded region is not a default one: no twin)")


def twin_reserve(cat, rng, stack):
    b = RB(ID, cat, rng, stack)
    b.idx_cmp = "status"   # index values are opaque here: equality is checked between the two real regions
    b.new("a")   # with reservations
    b.new("t")   # twin without
    b.new("o")
    prehistory(b, "o", rng.below(6), reserve=False)
    last = None
    for _ in range(2 + rng.below(10)):
        r = rng.below(10)
        if r < 3:
            before = len(b.s.lines)
            prehistory_reserve_only(b, "a", rng)
            if len(b.s.lines) > before:
                b.s.nontrivial = True
        v = b.value(last if b.collapse else None)
        last = v
        f = b.form_for(v)
        ka, na = b.push("a", v, f)
        kt, nt = b.push("t", v, f)
        b.s.lines[na].exp = ("same", nt)
        b.s.lines[na].sig = "reserve-changes-index@" + b.entry
        b.read("a", ka, sig="reserve-changes-read@" + b.entry)
    b.readall("a", sig="reserve-changes-read@" + b.entry)
    return b.s


def prehistory_reserve_only(b, name, rng):
    r = rng.below(3)
    if b.stack is not None:
        b.raw("x %s sreserve %d" % (name, rng.below(50)), ("eq", "ok"), shape="srsv")
        return
    if r == 0 and b.cat["reserve_forms"]:
        forms = [f for f in b.cat["reserve_forms"] if f not in b.cat["array_forms"]]
        if forms:
            vs = [b.value() for _ in range(1 + rng.below(4))]
            b.raw("reserve_items %s %s [%s]" % (name, rng.pick(forms) + ("~" if rng.below(2) else ""), ",".join(b.r(v) for v in vs)), ("eq", "ok"), shape="rsvi")
    elif b.cat["caps"]["reserve_regions"]:
        cands = ["o"] + ([name] if b.cat["caps"]["clone"] else [])
        srcs = [rng.pick(cands) for _ in range(1 + rng.below(2))]
        b.raw("reserve_regions %s %s" % (name, " ".join(srcs)), ("eq", "ok"), shape="rsvr")


def merged(cat, rng, stack):
    b = RB(ID, cat, rng, stack)
    b.idx_cmp = "status"   # index values are opaque here: equality is checked between the two real regions
    srcs = []
    for k in range(rng.below(4)):
        n = "s%d" % k
        b.new(n)
        prehistory(b, n, rng.below(8), reserve=False)
        srcs.append(n)
    if srcs and rng.below(3) == 0:
        srcs.append(srcs[0])
    b.merge("m", srcs)
    b.new("t")
    if any(b.h[s].vals for s in set(srcs)):
        b.s.nontrivial = True
    gens = 1 + rng.below(2)
    last = None
    # what the sources held: a merged coded region answers differently for exactly these (dictionary / code hits)
    pool = [v for s in sorted(set(srcs)) for v in b.h[s].vals]
    for g in range(gens):
        for _ in range(1 + rng.below(6)):
            v = b.value(last if b.collapse else None)
            if pool and rng.below(2):
                v = rng.pick(pool)
            last = v
            f = b.form_for(v)
            km, nm = b.push("m", v, f)
            kt, nt = b.push("t", v, f)
            b.s.lines[nm].exp = ("same", nt)
            b.s.lines[nm].sig = "merged-not-fresh@" + b.entry
            b.read("m", km, sig="merged-read@" + b.entry)
        b.readall("m", sig="merged-read@" + b.entry)
        if g + 1 < gens:
            # merge again from its own ancestor
            b.merge("m2", ["m"] + srcs[:1])
            b.h["m"] = b.h["m2"]
            b.raw("clone_from t t", None, cmp="none") if False else None
            b.s.add("new t %s" % b.entry, ("eq", "ok"))
            b.h["t"].vals = []
            b.h["t"].last_pushed = None
            # the handle named m2 continues as "m"
            for l in ():
                pass
            b.h["m"].name = "m2"
            return finish(b, rng, "m2")
    return b.s


def merged_coded(cat, rng, stack):
    """coded compositions (dictionary / Huffman): a merged region is *not* a default one — it answers with codes — but it
    starts empty and works: everything its sources held (the acceptance contract of C06/C07) is accepted and reads back,
    over two merge generations"""
    b = RB(ID, cat, rng, stack)
    b.idx_cmp = "status"
    srcs = []
    for k in range(1 + rng.below(3)):
        n = "s%d" % k
        b.new(n)
        for _ in range(1 + rng.below(8)):
            v = b.value()
            b.push(n, v, b.form_for(v))
        srcs.append(n)
    pool = [v for s in srcs for v in b.h[s].vals]
    cur = "m"
    b.merge(cur, srcs)
    for g in range(2):
        b.readall(cur, sig="merged-not-empty@" + b.entry)
        for _ in range(2 + rng.below(8)):
            v = rng.pick(pool)
            k, _ = b.push(cur, v, b.form_for(v), sig="merged-refuses-source-value@" + b.entry)
            b.read(cur, k, sig="merged-read@" + b.entry)
        b.readall(cur, sig="merged-read@" + b.entry)
        b.s.nontrivial = True
        if g == 0:
            # the next generation knows only what *its* sources held
            pool = list(b.h[cur].vals) + list(b.h[srcs[0]].vals)
            b.merge("m2", [cur] + srcs[:1])
            cur = "m2"
    return b.s


def finish(b, rng, name):
    last = None
    for _ in range(1 + rng.below(5)):
        v = b.value(last if b.collapse else None)
        last = v
        f = b.form_for(v)
        km, nm = b.push(name, v, f)
        kt, nt = b.push("t", v, f)
        b.s.lines[nm].exp = ("same", nt)
        b.s.lines[nm].sig = "merged-not-fresh@" + b.entry
        b.read(name, km, sig="merged-read@" + b.entry)
    b.readall(name, sig="merged-read@" + b.entry)
    return b.s


def withcap(cat, rng, stack):
    b = RB(ID, cat, rng, stack)
    b.idx_cmp = "status"   # index values are opaque here: equality is checked between the two real regions
    b.new("a")
    b.new("t")
    b.raw("x a swithcap %d" % rng.below(100), ("eq", "ok"), shape="withcap")
    b.s.nontrivial = True
    return finish(b, rng, "a")


def generate(seed, tier):
    rng = Rng(seed * 41 + 10)
    per = {"quick": 6, "thorough": 80, "search": 30}[tier]
    out = []
    for cat in entries():
        coded = cat["caps"]["coded"]
        for i in range(per):
            out.append(twin_reserve(cat, rng.fork(), None))
            if not coded:
                out.append(merged(cat, rng.fork(), None))
            else:
                out.append(merged_coded(cat, rng.fork(), None))
        for st in cat["stacks"]:
            for i in range(max(1, per // 3)):
                out.append(twin_reserve(cat, rng.fork(), st))
                out.append(withcap(cat, rng.fork(), st))
                if not coded:
                    out.append(merged(cat, rng.fork(), st))
                else:
                    out.append(merged_coded(cat, rng.fork(), st))
    return out
