"""C05: index containers store arbitrary usize sequences faithfully and never panic."""
from fcat import Rng
from props import idxcommon as ic

ID = "C05"
THEOREMS = [("FlatModel.Props.C05", t) for t in (
    "FC.C05.faithful", "FC.C05.stride_accepts_iff", "FC.C05.stride_reject_unchanged")]
PROFILES = {"quick": ["checked", "wrapping"], "thorough": ["checked", "wrapping"], "search": ["checked", "wrapping"]}
RULE = ("exhaustive push/clear sequences of a fixed length over the transition-covering alphabet "
        "{0,s,2s,3s,1,u32::MAX,u32::MAX+1,2^63,usize::MAX,clear} on Vec/IndexList/IndexOptimized, bare Stride sequences, "
        "plus random long sequences; a script is non-trivial when its sequence leaves the Empty/Zero stride states; "
        "distinct = distinct (container, operation-shape) sequences")
EXHAUSTIVE = {"quick": True, "thorough": True}
ASSUMPTIONS = ["usize is 64 bits", "vectors longer than 2^64 are not modelled"]


def generate(seed, tier, rnd=0):
    rng = Rng(seed)
    n = {"quick": 4, "thorough": 5, "search": 5}[tier]
    out = ic.exhaustive(ID, n, False, strides=(2,) if tier == "quick" else (2, 1 << 63)) if rnd == 0 else []
    out += ic.random_seqs(ID, rng, {"quick": 300, "thorough": 3000, "search": 1500}[tier], {"quick": 40, "thorough": 400, "search": 60}[tier], False)
    out += ic.stride_scripts(ID, rng, 200, (3 if tier == "quick" else 4) if rnd == 0 else 1)
    return out


def distribution(scripts):
    d = {}
    for s in scripts:
        d[s.entry] = d.get(s.entry, 0) + 1
    return {"scripts_per_container": d, "lines": sum(len(s.lines) for s in scripts)}
