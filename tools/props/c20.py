"""C20: all accepted input forms of a value are interchangeable."""
from fcat import Rng
from props.regcommon import RB, entries
from props.hist import encoded_region
from vlib import parse_pairs

ID = "C20"
THEOREMS = [("FlatModel.Props.C20", t) for t in ("FC.C20.slice_item_form", "FC.C20.readList_of_iter", "FC.pushReads_some",
                                                  "FC.C20.columns_iter_form", "FC.C20.columns_iter_form_region", "FC.pushRowLazy_spec")]
PROFILES = {"quick": ["checked", "wrapping"], "thorough": ["checked", "wrapping"], "search": ["checked"]}
RULE = ("twin regions: one fed a random mix of every input form the entry offers (owned, reference, reference to reference, array, "
        "slice, vector, element views such as Vec<&str>, wrapped iterator, read item taken from another region in both "
        "representations), one fed the canonical form; returned indices, used heap bytes and reads compared step by step; "
        "every form of every entry is exercised at least once per run (measured); non-trivial when >= 2 different forms are mixed")


def used(reply):
    p = parse_pairs(reply)
    return None if p is None else sorted(u for u, _ in p)


def one(cat, rng, stack, cover):
    b = RB(ID, cat, rng, stack)
    b.idx_cmp = "idx"
    b.new("a")
    b.new("t")
    canon = cat["forms"][0]
    forms_seen = set()
    last = None
    n = 2 + rng.below(10)
    for step in range(n):
        v = b.value(last if b.collapse else None)
        last = v
        # cover the rarely admissible forms first
        cands = [f for f in cat["forms"] if not (f in cat["array_forms"] and not (isinstance(v, (list, bytes)) and len(v) <= 4))]
        todo = [f for f in cands if (cat["entry"], f) not in cover]
        f = todo[0] if todo else rng.pick(cands)
        cover.add((cat["entry"], f))
        forms_seen.add(f)
        ka, na = b.push("a", v, f)
        kt, nt = b.push("t", v, canon)
        b.s.lines[na].exp = ("same", nt)
        b.s.lines[na].sig = "form-changes-index:%s@%s" % (f, b.entry)
        b.read("a", ka, sig="form-changes-read:%s@%s" % (f, b.entry))
        if cat["caps"]["heap"]:
            ht = b.raw("heap t", None, cmp="none", shape="heap")
            ha = b.raw("heap a", ("rel", ht, lambda got, other: None if used(got) == used(other) else "used bytes differ", "same number of bytes stored"),
                       cmp="none", sig="form-changes-bytes:%s@%s" % (f, b.entry), shape="heap")
    b.readall("a", sig="form-changes-read@" + b.entry)
    b.s.nontrivial = len(forms_seen) >= 2
    return b.s


def encoded_items(cat, rng):
    """Huffman: read items taken from an *encoded* region are one more input form; what a region learns from them
    (its statistics) must be what it learns from slices — visible one merge generation later"""
    b = RB(ID, cat, rng)
    # the bit positions of an encoded item depend on how the builder breaks ties between equally good codes, which
    # the property does not fix: index values are compared between the two real regions (twin), not with the model
    b.idx_cmp = "status"
    pool = encoded_region(b, rng, "s")
    for _ in range(2 + rng.below(8)):
        v = rng.pick(pool)
        b.push("s", v, b.form_for(v))
    b.new("a")      # fed read items of the encoded source
    b.new("t")      # fed the canonical form
    canon = cat["forms"][0]
    for k, v in enumerate(b.h["s"].vals):
        rp = rng.pick(["backed", "borrowed"])
        na = b.raw("pushitem a s #%d %s" % (k, rp), ("prefix", "idx"), cmp="status", sig="item-form-index@" + b.entry, shape="pushitem")
        b.h["a"].vals.append(v)
        kt, nt = b.push("t", v, canon)
        b.s.lines[na].exp = ("same", nt)
    b.readall("a", sig="form-changes-read@" + b.entry)
    # next generation: both learned the same statistics, so both build the same code
    b.merge("a2", ["a"])
    b.merge("t2", ["t"])
    pool2 = list(b.h["a"].vals)      # only what the two regions saw is covered by their statistics
    for _ in range(2 + rng.below(6)):
        v = rng.pick(pool2)
        k1, n1 = b.push("a2", v, canon)
        k2, n2 = b.push("t2", v, canon)
        b.s.lines[n1].exp = ("same", n2)
        b.s.lines[n1].sig = "item-form-changes-statistics@" + b.entry
        b.read("a2", k1, sig="form-changes-read@" + b.entry)
    b.s.nontrivial = True
    return b.s


COVER = set()


def generate(seed, tier):
    rng = Rng(seed * 61 + 15)
    per = {"quick": 8, "thorough": 100, "search": 40}[tier]
    COVER.clear()
    out = []
    for cat in entries():
        for i in range(per):
            out.append(one(cat, rng.fork(), None, COVER))
        for st in cat["stacks"][:1]:
            for i in range(max(1, per // 4)):
                out.append(one(cat, rng.fork(), st, set()))
        if cat["entry"].startswith("huffman("):
            for i in range(per * 3):
                out.append(encoded_items(cat, rng.fork()))
    return out


def distribution(scripts):
    forms = {}
    for s in scripts:
        for l in s.lines:
            if l.text.startswith("push a "):
                f = l.text.split(" ")[2]
                forms[f] = forms.get(f, 0) + 1
    from props.regcommon import catalogue
    total = sum(len(c["forms"]) for c in catalogue())
    return {"pushes_per_form": forms, "entry_form_pairs_total": total, "entry_form_pairs_hit": len(COVER)}
