"""C20: all accepted input forms of a value are interchangeable."""
from fcat import Rng
from props.regcommon import RB, entries
from vlib import parse_pairs

ID = "C20"
THEOREMS = [("FlatModel.Props.C20", t) for t in ("FC.C20.slice_item_form", "FC.C20.readList_of_iter", "FC.pushReads_some",
                                                  "FC.C20.columns_iter_form", "FC.C20.columns_iter_form_region", "FC.pushRowLazy_spec")]
PROFILES = {"quick": ["checked"], "thorough": ["checked", "wrapping"], "search": ["checked"]}
RULE = ("twin regions: one fed a random mix of every input form the entry offers (owned, reference, reference to reference, array, "
        "slice, vector, element views such as Vec<&str>, wrapped iterator, read item taken from another region in both "
        "representations), one fed the canonical form; returned indices, used heap bytes and reads compared step by step; "
        "every form of every entry is exercised at least once per run (measured); non-trivial when >= 2 different forms are mixed")


def used(reply):
    p = parse_pairs(reply)
    return None if p is None else sorted(u for u, _ in p)


def one(cat, rng, stack, cover):
    b = RB(ID, cat, rng, stack)
    b.idx_cmp = "idx"
    b.new("a")
    b.new("t")
    canon = cat["forms"][0]
    forms_seen = set()
    last = None
    n = 2 + rng.below(10)
    for step in range(n):
        v = b.value(last if b.collapse else None)
        last = v
        # cover the rarely admissible forms first
        cands = [f for f in cat["forms"] if not (f in cat["array_forms"] and not (isinstance(v, (list, bytes)) and len(v) <= 4))]
        todo = [f for f in cands if (cat["entry"], f) not in cover]
        f = todo[0] if todo else rng.pick(cands)
        cover.add((cat["entry"], f))
        forms_seen.add(f)
        ka, na = b.push("a", v, f)
        kt, nt = b.push("t", v, canon)
        b.s.lines[na].exp = ("same", nt)
        b.s.lines[na].sig = "form-changes-index:%s@%s" % (f, b.entry)
        b.read("a", ka, sig="form-changes-read:%s@%s" % (f, b.entry))
        if cat["caps"]["heap"]:
            ht = b.raw("heap t", None, cmp="none", shape="heap")
            ha = b.raw("heap a", ("rel", ht, lambda got, other: None if used(got) == used(other) else "used bytes differ", "same number of bytes stored"),
                       cmp="none", sig="form-changes-bytes:%s@%s" % (f, b.entry), shape="heap")
    b.readall("a", sig="form-changes-read@" + b.entry)
    b.s.nontrivial = len(forms_seen) >= 2
    return b.s


COVER = set()


def generate(seed, tier):
    rng = Rng(seed * 61 + 15)
    per = {"quick": 8, "thorough": 100, "search": 40}[tier]
    COVER.clear()
    out = []
    for cat in entries():
        for i in range(per):
            out.append(one(cat, rng.fork(), None, COVER))
        for st in cat["stacks"][:1]:
            for i in range(max(1, per // 4)):
                out.append(one(cat, rng.fork(), st, set()))
    return out


def distribution(scripts):
    forms = {}
    for s in scripts:
        for l in s.lines:
            if l.text.startswith("push a "):
                f = l.text.split(" ")[2]
                forms[f] = forms.get(f, 0) + 1
    from props.regcommon import catalogue
    total = sum(len(c["forms"]) for c in catalogue())
    return {"pushes_per_form": forms, "entry_form_pairs_total": total, "entry_form_pairs_hit": len(COVER)}
