def write(entries, stacks):
    pass
