#!/bin/bash
# Apply every harmless rewrite in turn and run all checks: none may raise an alarm. usage: tools/run_harmless.sh [patch ...]
cd "$(dirname "$0")/.."
ps=${@:-harmless/*.diff}
for p in $ps; do
  echo "== $p"
  python3 tools/try_patch.py $p all 2>&1 | grep -v "rc=0" | cut -c1-300
done
