#!/usr/bin/env python3
"""Is the model tied to the code where it matters?  Mutate the *model*, not the crate.

For every mutant in tools/model_mutants.json — a one-place textual change of an executable definition under
lean/FlatModel/Model (or Driver) — rebuild only the model driver `fcmodel` (the proofs are not rebuilt: they
would, rightly, fail), run the quick scripts of the listed properties through the real crate and through the
mutated model, and count the lines on which the two disagree.  A mutant no script notices marks a part of the
model that the correspondence does not exercise: theorems about it are tied to the code by reading only.

The tool edits lean/FlatModel in place and restores it; run it on a private copy of /verif (see DESIGN 0.5),
never while checks are running.   usage: tools/model_mutants.py [--only id,id,...] [--tier quick|search]
Writes model_mutants.result.json next to the mutant list."""
import argparse
import importlib
import inspect
import json
import os
import subprocess
import sys
import time

HERE = os.path.dirname(os.path.abspath(__file__))
ROOT = os.path.dirname(HERE)
sys.path.insert(0, HERE)
import vlib  # noqa: E402


def build_model():
    r = subprocess.run(["lake", "build", "fcmodel"], cwd=vlib.LEAN, capture_output=True, text=True)
    return r.returncode == 0, (r.stdout + r.stderr)[-1500:]


def scripts_of(prop, tier, seed):
    mod = importlib.import_module("props." + prop.lower())
    takes_round = len(inspect.signature(mod.generate).parameters) >= 3
    gen = mod.generate(seed, tier, 0) if takes_round else mod.generate(seed, tier)
    profile = (mod.PROFILES[tier] if isinstance(mod.PROFILES, dict) else mod.PROFILES)[0]
    return list(gen), profile


def main():
    ap = argparse.ArgumentParser()
    ap.add_argument("--only")
    ap.add_argument("--tier", default="quick")
    ap.add_argument("--list", default=os.path.join(HERE, "model_mutants.json"))
    a = ap.parse_args()
    mutants = json.load(open(a.list))
    if a.only:
        keep = set(a.only.split(","))
        mutants = [m for m in mutants if m["id"] in keep]
    ok, out = build_model()
    if not ok:
        sys.exit("the unmutated model does not build:\n" + out)
    cache = {}

    def impl_of(prop):
        if prop not in cache:
            scripts, profile = scripts_of(prop, a.tier, 0)
            impl = vlib.run_sharded(vlib.PROFILES[profile], scripts, False)
            base = vlib.run_sharded(vlib.FCMODEL, scripts, True)
            _, mf, _, nm = vlib.evaluate(scripts, impl, base, profile)
            if mf:
                sys.exit("%s: the unmutated model already disagrees on %d lines" % (prop, len(mf)))
            cache[prop] = (scripts, profile, impl, nm)
        return cache[prop]

    results = []
    for m in mutants:
        for p in m["props"]:
            impl_of(p)          # with the unmutated model, before any edit
    for m in mutants:
        path = os.path.join(ROOT, m["file"])
        text = open(path).read()
        t0 = time.time()
        res = {"id": m["id"], "file": m["file"], "old": m["old"], "new": m["new"], "why": m.get("why", "")}
        if text.count(m["old"]) != 1:
            res["status"] = "does-not-apply (%d occurrences)" % text.count(m["old"])
            results.append(res)
            print(m["id"], res["status"], flush=True)
            continue
        try:
            open(path, "w").write(text.replace(m["old"], m["new"]))
            ok, out = build_model()
            if not ok:
                res["status"] = "does-not-compile"
                res["detail"] = out[-400:]
            else:
                seen = {}
                for p in m["props"]:
                    scripts, profile, impl, nm = impl_of(p)
                    model = vlib.run_sharded(vlib.FCMODEL, scripts, True)
                    _, mf, _, _ = vlib.evaluate(scripts, impl, model, profile)
                    seen[p] = len(mf)
                    if mf and "example" not in res:
                        f = mf[0]
                        res["example"] = {"property": p, "entry": f.script.entry, "line": f.script.lines[f.line_no].text,
                                          "crate": str(f.observed)[:120], "mutated_model": str(f.model_reply)[:120]}
                res["disagreements"] = seen
                res["status"] = "noticed" if any(seen.values()) else "UNNOTICED"
        finally:
            open(path, "w").write(text)
        res["wall_s"] = round(time.time() - t0)
        results.append(res)
        print(m["id"], res["status"], res.get("disagreements", ""), flush=True)
        json.dump(results, open(os.path.splitext(a.list)[0] + ".result.json", "w"), indent=1)
    ok, out = build_model()
    print("restored:", ok)
    n = sum(1 for r in results if r["status"] == "noticed")
    print("%d mutants, %d noticed, %d unnoticed, %d other" % (
        len(results), n, sum(1 for r in results if r["status"] == "UNNOTICED"),
        sum(1 for r in results if r["status"] not in ("noticed", "UNNOTICED"))))


if __name__ == "__main__":
    main()
