#!/usr/bin/env python3
"""Write MANIFEST.json from the table below (kept next to the checks so the two cannot drift)."""
import json
import os

ROOT = os.path.dirname(os.path.dirname(os.path.abspath(__file__)))

TB = ("Lean 4.33 kernel; axioms audited per theorem on every run (at most propext, Classical.choice, Quot.sound; no native_decide, "
      "no sorry); the model is hand-written and tied to /repo by a differential run of the compiled model against the real crate "
      "(sampling: a code change that alters no compared observation on any generated script is invisible); std Vec/BTreeMap/sort "
      "semantics are modelled, not verified; the Rust harness fcx and the python oracles are trusted.")

CHECKS = {
    "C01": ("Lean proof (LawfulRegion laws by instance resolution over every composition) + differential correspondence",
            "Theorem C01.roundtrip holds for every reachable state of every region with a LawfulRegion instance; one inferInstance "
            "obligation per catalogued composition (regenerated from catalogue.txt on every run) shows the catalogue is covered. "
            "The correspondence drives the real crate and the compiled model with the same scripts in both overflow profiles and "
            "compares reads, refusals and item accessors; a direct oracle (shadow list of pushed values) supplies replays.", "§6 C01"),
    "C05": ("Lean proof (LawfulIdxCont for Vec/IndexList/IndexOptimized, Stride acceptance iff documented pattern) + exhaustive "
            "short-sequence correspondence",
            "C05.faithful: for every list of usize values every container's iter/index/len/is_empty equal the list; "
            "stride_accepts_iff / stride_reject_unchanged characterise Stride::push. The model is mode-independent (checked_mul), "
            "and the correspondence enumerates all push/clear sequences of a fixed length over the transition-covering alphabet "
            "against the real containers in both build profiles.", "§6 C05"),
    "C19": ("Lean proof (closed form of the IndexOptimized state after any push sequence) + exhaustive correspondence on byte cost",
            "C19.cost / used_bytes give the exact heap bytes for every sequence: stride prefix free, 4 bytes per entry below 2^32, "
            "8 bytes from the first larger value on; dense_free covers every n < 2^64. The correspondence compares heap_size's "
            "used bytes of the real containers with the model and with the documented rule on exhaustive short sequences.", "§6 C19"),
}


def main():
    checks = []
    for pid in sorted(CHECKS):
        tech, text, ref = CHECKS[pid]
        checks.append({
            "property_id": pid,
            "quick_cmd": "./check %s --tier quick" % pid,
            "thorough_cmd": "./check %s --tier thorough" % pid,
            "evidence_file": "/verif/evidence/%s.json" % pid,
            "replay_cmd_template": "./check %s --replay {path}" % pid,
            "engine": "lean-model+fcx",
            "level_claimed": {"category": "proof", "text": text, "design_ref": ref},
            "level_note": TB,
            "technique": tech,
        })
    all_ids = ["C%02d" % i for i in range(1, 21)]
    na = [{"property_id": p, "reason": "check not registered yet (work in progress; see DESIGN.md section 10 for the staging)"}
          for p in all_ids if p not in CHECKS]
    m = {
        "version": 1,
        "setup_cmd": "./setup.sh",
        "hooks": {"guard": "flatcontainer_verif", "enable": "none needed: every observation goes through the public API",
                  "baseline_off_cmd": "cd /repo && cargo test --workspace --no-fail-fast --offline",
                  "source_commits": [], "add_only": True},
        "engines": [
            {"name": "lean-model+fcx", "path": "/verif/check", "serves_properties": sorted(CHECKS),
             "kind_free_text": "Lean 4 model + theorems (lean/FlatModel), compiled model driver fcmodel, Rust harness fcx (harness/) "
                               "running the real crate, python driver (check, tools/)"}],
        "checks": checks,
        "not_applicable": na,
        "notes": "Genuine defects found and repaired are listed in known_findings.json (status fixed) and DESIGN.md section 9.",
    }
    json.dump(m, open(os.path.join(ROOT, "MANIFEST.json"), "w"), indent=1)


if __name__ == "__main__":
    main()
