#!/usr/bin/env python3
"""Write MANIFEST.json from the table below (kept next to the checks so the two cannot drift)."""
import json
import os

ROOT = os.path.dirname(os.path.dirname(os.path.abspath(__file__)))

TB = ("Lean 4.33 kernel; axioms audited per theorem on every run (at most propext, Classical.choice, Quot.sound; no native_decide, "
      "no sorry); the model is hand-written and tied to /repo by a differential run of the compiled model against the real crate "
      "(sampling: a code change that alters no compared observation on any generated script is invisible); std Vec/BTreeMap/sort "
      "semantics are modelled, not verified; the Rust harness fcx and the python oracles are trusted.")

CHECKS = {
    "C01": ("Lean proof (LawfulRegion laws by instance resolution over every composition) + differential correspondence",
            "Theorem C01.roundtrip holds for every reachable state of every region with a LawfulRegion instance; one inferInstance "
            "obligation per catalogued composition (regenerated from catalogue.txt on every run) shows the catalogue is covered. "
            "The correspondence drives the real crate and the compiled model with the same scripts in both overflow profiles and "
            "compares reads, refusals and item accessors; a direct oracle (shadow list of pushed values) supplies replays. Props/Universe.lean: the same theorem quantified over a closed universe of region descriptions (every finite nesting of the crate's region constructors, interpreted by structural recursion; the catalogue is in its image by rfl).", "§6 C01"),
    "C05": ("Lean proof (LawfulIdxCont for Vec/IndexList/IndexOptimized, Stride acceptance iff documented pattern) + exhaustive "
            "short-sequence correspondence",
            "C05.faithful: for every list of usize values every container's iter/index/len/is_empty equal the list; "
            "stride_accepts_iff / stride_reject_unchanged characterise Stride::push. The model is mode-independent (checked_mul), "
            "and the correspondence enumerates all push/clear sequences of a fixed length over the transition-covering alphabet "
            "against the real containers in both build profiles.", "§6 C05"),
    "C19": ("Lean proof (closed form of the IndexOptimized state after any push sequence) + exhaustive correspondence on byte cost",
            "C19.cost / used_bytes give the exact heap bytes for every sequence: stride prefix free, 4 bytes per entry below 2^32, "
            "8 bytes from the first larger value on; dense_free covers every n < 2^64. The correspondence compares heap_size's "
            "used bytes of the real containers with the model and with the documented rule on exhaustive short sequences.", "§6 C19"),
    "C02": ("Lean proof (frame law by induction over histories, every composition) + differential correspondence",
            "C02.frame_history: any valid index reads the same after any history of pushes on any lawful region; C02.frame_reserve "
            "extends it to the reservation calls. Scripts re-read all issued ordinals after every step of histories mixing push, "
            "reserve_items, reserve_regions and FlatStack::reserve. Universe.C02_every_composition / C02_reserve_every_composition quantify the frame law over every description of the closed universe.", "§6 C02"),
    "C03": ("Lean proof (FlatStack refines a list; FlatStack is itself a LawfulRegion) + differential correspondence",
            "C03.rep_copy/rep_extend/rep_fromIter/rep_clear/observers: a stack represents the list of copied values for every lawful "
            "region and every lawful index container; get(k) is none (a panic) exactly for k >= len. Scripts compare len, is_empty, "
            "get incl. out-of-range, iteration, size hints and cloned iterators with a Vec shadow.", "§6 C03"),
    "C08": ("Lean proof (clear yields a state bisimilar to default; bisimulation lifted over push sequences) + twin-run correspondence",
            "C08.after_clear: for every lawful region (and FlatStack) and every history, after clear any push sequence returns the "
            "same indices and reads as on Default::default(). Scripts run the continuation on the cleared region and a fresh twin. Universe.C08_every_composition: for every description of the closed universe.", "§6 C08"),
    "C09": ("Lean proof (clone/clone_from laws per instance, observational equality via the bisimulation) + differential correspondence",
            "C09.clone_observe / cloneFrom_observe: the copy is observationally the source (equal reads now, equal answers to every "
            "further push sequence), for clone_from with an arbitrary destination; one inferInstance obligation per composition. "
            "Independence is exercised by the scripts (mutate one, re-read the other). UniverseOps.C09_every_composition: for every description of the closed universe, coded regions included.", "§6 C09"),
    "C10": ("Lean proof (reserve_* and merge_regions laws per instance) + twin-run correspondence",
            "C10.reserveItems_invisible / reserveRegions_invisible / merge_fresh / stack_*: reservations with arbitrary announcements "
            "and merging from arbitrary sources are invisible up to the bisimulation, for every uncoded composition (inferInstance "
            "per entry); coded regions are covered by C06/C07. UniverseOps.C10_every_composition / C10_merge_every_composition: for every description of the closed universe (merge: uncoded ones; huffman_not_lawfulMerge shows why); merged coded regions are exercised with their sources' values over two generations.", "§6 C10"),
    "C11": ("Lean proof (hit-or-miss characterisation of CollapseSequence::push) + exhaustive short-sequence correspondence",
            "C11.hit_or_miss: a push either returns the remembered index with the state literally unchanged (iff == to the remembered "
            "item) or stores through the inner region; forgets_on_reset covers default/clear, merge by C10; adjacent: over any two consecutive pushes the second is collapsed iff it is == the item the first index reads (last_tracks / last_after_history: after any history of pushes the remembered index is the last one handed out). Scripts enumerate all "
            "sequences of a fixed length over three values on the top-level collapse entries and random ones with clear/merge/clone/"
            "serde on nested ones.", "§6 C11"),
    "C12": ("Lean proof (dense-index invariant of ConsecutiveIndexPairs and ColumnsRegion) + differential correspondence",
            "C12.kth / columns_kth: the k-th push since creation, merge or clear returns k; columns_row_exact: the row reads back with "
            "exactly its own length. Scripts use empty items and ragged rows across clear/merge on every consec/columns entry.", "§6 C12"),
    "C06": ("Lean proof (Huffman optimality over Kraft-feasible assignments, canonical codes prefix-free, builder is a greedy run) "
            "+ bounded-exhaustive and random correspondence with bit-range oracle",
            "C06.optimal: for every valid frequency table and every competing prefix code with >= 1 bit per symbol the lengths "
            "createFrom assigns cost no more (empty, single-symbol and general case in one statement, any tie-break); "
            "canonical_is_prefix_free, code_lt, lengths_kraft_eq_one, single_symbol_one_bit, lookup_some_iff. Bit level: push_appends "
            "(the store's bit string grows by exactly the code words, earlier bits unchanged, u64 accumulator never truncates for "
            "codes <= 57 bits), chunks_spec / decode_spec (BitIterator and the nested-table Decoder invert it, any table depth), "
            "createFrom_tableOK, roundtrip_coded / frame_coded / bits_eq_sum / refuses_unknown / raw_mode; capstone "
            "roundtrip_merged: a container built by merge_regions from valid statistics reads back every accepted item. The "
            "correspondence checks bit ranges against code lengths measured on the real container and total cost against a "
            "reference Huffman, on bounded-exhaustive and random profiles in both build profiles.", "§6 C06"),
    "C07": ("Lean proof (dictionary well-formedness invariant over all merge generations, exact characterisation of refusal) + "
            "differential correspondence incl. scarce-tag, crowded and compacting (more insertions than the summary's capacity) regimes",
            "C07.generations: every region reachable by push/clear/merge from any sources satisfies WF; under WF a push either is "
            "refused exactly when the literal is ambiguous (refuses_ambiguous) or reads back exactly (roundtrip) and leaves earlier "
            "indices unchanged (frame); accepts_empty; heavy_hitters_one_byte_partial / all_pushed_tagged: dictionary hits cost one "
            "byte and, below the compaction threshold with enough free tags, every source string is a hit. The Misra-Gries "
            "compaction bound itself is not proved (stated in DESIGN.md). Props/C07MG.lean: the invariant the crate's Misra-Gries compaction actually maintains (the classical total/(k+1) bound is refuted by a kernel-checked counterexample), its composition through new_from, and dominant_strings_tagged: a string with C of N non-empty pushes gets a one-byte code whenever K*N < (F+1)*(K*C-2*N), K = MG.cap/2+1; the crowded regime of the generator is derived from it. The summary's capacity MG.cap (the literal of Vec::with_capacity in MisraGries::default(), 1024 in the crate as verified, K = 513) is not fixed by the property: gen_facts re-extracts it from the source on every run (Generated/SourceFacts.lean mgCapacity), the model, every theorem (stated with MG.cap, MG.k = MG.cap/2, MG.k+1 and proved from the generic-capacity theorems) and the generator's sizes follow it; the one side condition 2 <= MG.cap is decided once (Proofs/MGCap.lean: MG.two_le_cap), from which run_length_lt_cap: the summary's vector never reallocates.", "§6 C07"),
    "C13": ("Lean proof (get agrees with into_owned[k]? for both representations, none beyond len) + exhaustive-position correspondence",
            "C13.readSlice_get / readColumns_get / stack_get: for well-formed items get k = owned[k]?, in particular a panic for every "
            "k >= len; len/is_empty/iter agree. Scripts probe every item of regions with adjacent items at every position 0..len+2 "
            "and huge positions in both representations. The harness also audits nth/skip/count/last/size_hint of every read-item iterator against stepping it.", "§6 C13"),
    "C14": ("Lean proof (IntoOwned laws of the modelled read items) + differential correspondence",
            "C14.cloneOnto_eq (zip/extend/truncate for any prior target), borrowAs_roundtrip, intoOwned_eq_index, reborrow_id, "
            "copy_between_regions for both representations, for slices and rows. Element-level into_owned is identified with the "
            "owned value in the model (laws compose structurally); scripts check every catalogue entry incl. option/result/tuple "
            "variants against prior targets. Props/C14b.lean: clone_onto / into_owned / borrow_as of Option, Result, tuple and slice items arm by arm (ItemLaws, cloneOnto_nested for every nesting) and of Huffman Wrapped items. Props/C14c.lean + Model/ItemOps.lean: the model driver answers owned / cloneonto (and cmp for Huffman compositions) through these item definitions, nested per region type as the Rust impls nest (class ItemOps), so they are diffed against the crate; LawfulItemOps (one inferInstance obligation per catalogued composition, Generated/CoveredItems.lean) and cloneOntoAt_eq_index / intoOwnedAt_eq_index bridge them to Region::index.", "§6 C14"),
    "C15": ("Lean proof (iterator comparison of any two representations equals lexicographic comparison of owned values; order laws) "
            "+ all-pairs correspondence",
            "C15.readSlice_eq / readSlice_cmp: the lazy Iterator::eq/cmp over any two representations equals listEq/lexCmp of the owned "
            "lists; lexCmp_lawful: reflexive, antisymmetric, transitive, eq iff cmp = Equal, closed under nesting. Huffman raw vs "
            "encoded items are covered by the correspondence (all pairs across a raw and an encoded container). Props/C15b.lean: Wrapped eq/cmp in all four representation arms equal the owned lists' ==/lexicographic order, across containers with different codes.", "§6 C15"),
    "C04": ("Lean proof (history theorem issued_reads for every lawful region; decide over program-text facts regenerated from /repo/src) "
            "+ differential correspondence with byte-wise UTF-8 re-validation",
            "C04.string_reads_pushed: after any push/clear history every issued index of a string region reads exactly the pushed "
            "bytes, so any predicate true of all pushed strings (UTF-8 validity) is true of all strings read; single_unsafe, "
            "string_write_paths_are_utf8, storage_is_private are decided over facts the extractor re-reads from the source on every "
            "run (an unrecognised construct becomes `other` and fails the theorem). Scripts re-validate every &str leaving the crate "
            "across clone/merge/serde histories.", "§6 C04"),
    "C20": ("Lean proof (the divergent code paths — Push<ReadSlice> and Push<PushIter> for columns — equal the canonical path) + twin-run "
            "correspondence covering every (entry, form) pair",
            "C20.slice_item_form: pushing a read item (backed by any region, or borrowed) equals pushing its owned list; "
            "columns_iter_form(_region): lazily created columns equal pre-padded ones. The remaining forms forward to the canonical "
            "impl in one step and are modelled as such (transcription); the twin run compares indices, used bytes and reads of a "
            "mixed-form history with a canonical-form twin and measures that all 416 entry x form pairs are hit.", "§6 C20"),
    "C16": ("Lean proof (serde model: de (ser r) = clone r for every instance; clone is observationally the source) + differential "
            "correspondence incl. structural comparison of the serialised tree",
            "C16.de_ser: deserialising the serialisation of any region / index container / FlatStack yields exactly the clone in the "
            "model (all bookkeeping fields identical: last_index, stride state, spill lists, offsets), C16.continuation: which answers "
            "every further push sequence like the original; one inferInstance obligation per serde-enabled composition. Scripts "
            "serialise the real value with serde_json, compare its tree with the model's (struct nodes as multisets of field "
            "values) and drive both copies through the same continuation comparing indices, reads and used bytes. UniverseSer.C16_every_composition: for every serde-enabled description of the closed universe.", "§6 C16"),
    "C17": ("Lean proof (growth-vector model of every structural region: reserve/merge leave exactly the room the pushes consume; "
            "doubling bound) + capacity/allocator correspondence",
            "C17.no_growth_after_reserve_items / _regions / _merge / _merge_capacity: for every vector-backed structural composition "
            "(inferInstance per entry) pushing exactly the announced contents changes no capacity reported by heap_size, from empty "
            "or populated regions; C17.log_growth: each capacity changes at most log2(final)+1 times under any doubling policy; the "
            "unrepaired SliceRegion::merge_regions is shown (by evaluation) to violate the law the repaired one satisfies. PARTIAL by "
            "nature: the allocator, RawVec's policy and the optimiser are runtime facts; the harness's counting allocator and the "
            "capacities reported by the real crate cover them by sampling. UniverseHeap.C17_*_every_composition: for every vector-backed description of the closed universe. Props/C17Grows.lean + UniverseGrows.lean: the logarithmic bound for EVERY uncoded composition (collapse, consec, columns, IndexOptimized/IndexList index containers included), per storage identified by a key path because columns insert storages in the middle of the heap_size report; the one exception is stated and proved (the model does not carry the capacity of the Vec of columns: columnsVec_not_cstep, columnsVec_changes_le: at most one change per added column).", "§6 C17"),
    "C18": ("Lean proof (capacity invariant over the whole API; used-bytes monotonicity; structural accounting lemmas) + differential "
            "correspondence with shadow lower bound",
            "C18.used_le_cap, push_monotone, clear_caps, clear_used(_default), every_child_*, lower_bound: for every region reachable "
            "through push/clear/reserve/merge/clone the reported pairs have used <= capacity, used bytes never decrease on push, clear "
            "keeps capacities and forgets payload, composites report the concatenation of their children, and a content-defined "
            "`stored` lower bound holds (exact for owned/string/slice storages). Scripts check the real crate's pairs against a "
            "lower bound computed from the shadow and against the model's used bytes. UniverseHeap.C18_every_composition: for every description of the closed universe.", "§6 C18"),
}


def main():
    checks = []
    for pid in sorted(CHECKS):
        tech, text, ref = CHECKS[pid]
        checks.append({
            "property_id": pid,
            "quick_cmd": "./check %s --tier quick" % pid,
            "thorough_cmd": "./check %s --tier thorough" % pid,
            "evidence_file": "/verif/evidence/%s.json" % pid,
            "replay_cmd_template": "./check %s --replay {path}" % pid,
            "engine": "lean-model+fcx",
            "level_claimed": {"category": "proof", "text": text, "design_ref": ref},
            "level_note": TB,
            "technique": tech,
        })
    all_ids = ["C%02d" % i for i in range(1, 21)]
    na = [{"property_id": p, "reason": "check not registered yet (work in progress; see DESIGN.md section 10 for the staging)"}
          for p in all_ids if p not in CHECKS]
    m = {
        "version": 1,
        "setup_cmd": "./setup.sh",
        "hooks": {"guard": "flatcontainer_verif", "enable": "none needed: every observation goes through the public API",
                  "baseline_off_cmd": "cd /repo && cargo test --workspace --no-fail-fast --offline",
                  "source_commits": [], "add_only": True},
        "engines": [
            {"name": "lean-model+fcx", "path": "/verif/check", "serves_properties": sorted(CHECKS),
             "kind_free_text": "Lean 4 model + theorems (lean/FlatModel), compiled model driver fcmodel, Rust harness fcx (harness/) "
                               "running the real crate, python driver (check, tools/)"}],
        "checks": checks,
        "not_applicable": na,
        "notes": "Genuine defects found and repaired are listed in known_findings.json (status fixed) and DESIGN.md section 9.",
    }
    json.dump(m, open(os.path.join(ROOT, "MANIFEST.json"), "w"), indent=1)


if __name__ == "__main__":
    main()
