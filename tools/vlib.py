"""Shared machinery of the checks: scripts with expectations, running the real crate (fcx) and the
Lean model (fcmodel), three-way comparison, classification, replay files, evidence."""
import hashlib
import json
import os
import re
import subprocess
import sys
import time
from concurrent.futures import ThreadPoolExecutor

sys.path.insert(0, os.path.dirname(__file__))
import fcat

ROOT = os.path.dirname(os.path.dirname(os.path.abspath(__file__)))
LEAN = os.path.join(ROOT, "lean")
HARNESS = os.path.join(ROOT, "harness")
WORK = os.path.join(ROOT, "work")
FCMODEL = os.path.join(LEAN, ".lake", "build", "bin", "fcmodel")
PROFILES = {"checked": os.path.join(HARNESS, "target", "debug", "fcx"),
            "wrapping": os.path.join(HARNESS, "target", "wrapping", "fcx")}
ACCEPTED_AXIOMS = {"propext", "Classical.choice", "Quot.sound"}
ENV = dict(os.environ, CARGO_NET_OFFLINE="true")


def log(*a):
    print(*a, file=sys.stderr, flush=True)


# ------------------------------------------------------------------ wire values (python side)
def parse_val(s):
    """wire text -> nested python: int | ('x', bytes) | list | ('u',) | ('n',) | ('s',v) | ('k',v) | ('e',v) | ('p',a,b)"""
    pos = 0

    def p():
        nonlocal pos
        c = s[pos]
        if c == "u":
            pos += 1
            return ("u",)
        if c == "n":
            pos += 1
            return ("n",)
        if c in "ske" and s[pos + 1] == ":":
            pos += 2
            return (c, p())
        if c == "x":
            pos += 1
            st = pos
            while pos < len(s) and s[pos] in "0123456789abcdef":
                pos += 1
            return ("x", bytes.fromhex(s[st:pos]))
        if c == "[":
            pos += 1
            out = []
            if s[pos] == "]":
                pos += 1
                return out
            while True:
                out.append(p())
                if s[pos] == ",":
                    pos += 1
                elif s[pos] == "]":
                    pos += 1
                    return out
                else:
                    raise ValueError(s)
        if c == "(":
            pos += 1
            a = p()
            assert s[pos] == ","
            pos += 1
            b = p()
            assert s[pos] == ")"
            pos += 1
            return ("p", a, b)
        st = pos
        while pos < len(s) and s[pos].isdigit():
            pos += 1
        if st == pos:
            raise ValueError(s)
        return int(s[st:pos])

    v = p()
    if pos != len(s):
        raise ValueError(s)
    return v


def flatten_idx(text):
    """index values: tuples nest differently on the two sides; compare the flat sequence of leaves"""
    try:
        v = parse_val(text)
    except Exception:
        return text
    out = []

    def walk(x):
        if isinstance(x, tuple):
            if x[0] == "p":
                walk(x[1])
                walk(x[2])
            elif x[0] in "ske":
                out.append(x[0])
                walk(x[1])
            elif x[0] == "n":
                out.append("n")
            elif x[0] == "u":
                pass
            else:
                out.append(repr(x))
        else:
            out.append(repr(x))

    walk(v)
    return ",".join(out)


# ------------------------------------------------------------------ scripts
class Line:
    __slots__ = ("text", "exp", "cmp", "sig")

    def __init__(self, text, exp=None, cmp="exact", sig=None):
        self.text = text
        self.exp = exp      # None | ("eq", s) | ("any", [s..]) | ("prefix", s) | ("pred", fn, descr) | ("same", line_no[, what])
        self.cmp = cmp      # exact | status | idx | heap | none
        self.sig = sig      # failure signature (shape of the failing operation)


class Script:
    """one operation history on fresh handles, with the oracle's expectation next to every line"""

    def __init__(self, prop, entry, tags=()):
        self.prop = prop
        self.entry = entry
        self.lines = []
        self.tags = set(tags)
        self.shape = []     # operation/value shapes, for counting distinct scripts
        self.nontrivial = False
        self.model = True   # compare with the model at all

    def add(self, text, exp=None, cmp="exact", sig=None, shape=None):
        self.lines.append(Line(text, exp, cmp, sig))
        self.shape.append(shape if shape is not None else text.split(" ")[0])
        return len(self.lines) - 1

    def shape_hash(self):
        return hashlib.sha1((self.entry + "|" + "|".join(self.shape)).encode()).hexdigest()[:16]

    def text(self):
        return [l.text for l in self.lines]


def val_shape(sh, v):
    """shape of a value with the values themselves forgotten (sizes kept)"""
    k = sh[0]
    if k in ("nat", "f64", "char", "unit"):
        return k[0]
    if k == "bytes":
        return "b%d" % min(len(v), 3)
    if k == "list":
        return "[" + ",".join(val_shape(sh[1], x) for x in v[:4]) + ("+" if len(v) > 4 else "") + "]"
    if k == "opt":
        return "n" if v is None else "s" + val_shape(sh[1], v[0])
    if k == "res":
        return ("k" + val_shape(sh[1], v[1])) if v[0] == "ok" else ("e" + val_shape(sh[2], v[1]))
    if k == "tup":
        return "(" + ",".join(val_shape(s, x) for s, x in zip(sh[1], v)) + ")"
    return "?"


# ------------------------------------------------------------------ building
def sh(cmd, cwd=None, timeout=3600, env=None):
    p = subprocess.run(cmd, cwd=cwd, shell=isinstance(cmd, str), stdout=subprocess.PIPE, stderr=subprocess.STDOUT,
                       timeout=timeout, env=env or ENV, text=True, errors="replace")
    return p.returncode, p.stdout


def flock_run(lockfile, fn):
    import fcntl
    os.makedirs(os.path.dirname(lockfile), exist_ok=True)
    with open(lockfile, "w") as f:
        fcntl.flock(f, fcntl.LOCK_EX)
        try:
            return fn()
        finally:
            fcntl.flock(f, fcntl.LOCK_UN)


def regenerate():
    rc, out = sh([sys.executable, os.path.join(ROOT, "tools", "gen_catalogue.py")])
    if rc != 0:
        raise RuntimeError("catalogue generation failed:\n" + out)
    rc, out = sh([sys.executable, os.path.join(ROOT, "tools", "gen_facts.py")])
    if rc != 0:
        raise RuntimeError("source fact extraction failed:\n" + out)


def build_lean(targets):
    """lake build; returns (ok, output)"""
    def go():
        return sh(["lake", "build"] + targets, cwd=LEAN, timeout=3600)
    rc, out = flock_run(os.path.join(WORK, "lean.lock"), go)
    return rc == 0, out


def recheck_lean(modules):
    """independent re-check of the compiled modules by `leanchecker` (replays every declaration of the
    module through the kernel); returns (ok, output)"""
    def go():
        return sh(["lake", "env", "leanchecker"] + sorted(modules), cwd=LEAN, timeout=3600)
    rc, out = flock_run(os.path.join(WORK, "lean.lock"), go)
    return rc == 0, out


def build_harness(profiles):
    def go():
        for p in profiles:
            cmd = ["cargo", "build", "--offline", "--quiet"] + ([] if p == "checked" else ["--profile", "wrapping"])
            rc, out = sh(cmd, cwd=HARNESS, timeout=3600)
            if rc != 0:
                return False, out
        return True, ""
    return flock_run(os.path.join(WORK, "cargo.lock"), go)


AX_RE = re.compile(r"'(\S+)' depends on axioms: \[([^\]]*)\]")
NOAX_RE = re.compile(r"'(\S+)' does not depend on any axioms")


def audit_axioms(prop, theorems):
    """write Audit/<prop>.lean printing the axioms of every listed theorem, build it, parse"""
    path = os.path.join(LEAN, "FlatModel", "Audit", prop + ".lean")
    os.makedirs(os.path.dirname(path), exist_ok=True)
    mods = sorted({m for m, _ in theorems})
    text = "".join("import %s\n" % m for m in mods) + "".join("#print axioms %s\n" % t for _, t in theorems)
    if not os.path.exists(path) or open(path).read() != text:
        open(path, "w").write(text)
    ok, out = build_lean(["FlatModel.Audit." + prop])
    found = {}
    # lake replays the info messages of an up-to-date module as well
    flat = out.replace("\n  ", " ")
    for m in AX_RE.finditer(flat):
        found[m.group(1)] = {a.strip() for a in m.group(2).replace("\n", " ").split(",") if a.strip()}
    for m in NOAX_RE.finditer(flat):
        found[m.group(1)] = set()
    return ok, out, found


SCAN_RE = re.compile(r"\b(sorry|admit|native_decide|bv_decide|implemented_by|unsafe)\b|^\s*axiom\s|maxHeartbeats\s+0")


def scan_sources():
    """textual scan of the Lean sources for escape hatches (outside comments)"""
    hits = []
    for dp, _, fns in os.walk(os.path.join(LEAN, "FlatModel")):
        for fn in fns:
            if not fn.endswith(".lean"):
                continue
            text = open(os.path.join(dp, fn)).read()
            text = re.sub(r"/-.*?-/", lambda m: "\n" * m.group(0).count("\n"), text, flags=re.S)
            for n, line in enumerate(text.split("\n"), 1):
                line = line.split("--")[0]
                if SCAN_RE.search(line):
                    hits.append("%s:%d: %s" % (os.path.relpath(os.path.join(dp, fn), LEAN), n, line.strip()))
    return hits


# ------------------------------------------------------------------ running
def run_stream(binary, lines, reply_to_file, timeout):
    """run one process over a list of protocol lines; returns the list of replies (possibly shorter)"""
    os.makedirs(WORK, exist_ok=True)
    tag = "%d-%d" % (os.getpid(), id(lines))
    inp = os.path.join(WORK, "in-%s.txt" % tag)
    outp = os.path.join(WORK, "out-%s.txt" % tag)
    with open(inp, "w") as f:
        f.write("\n".join(lines) + "\n")
    status = "ok"
    try:
        with open(inp) as fin:
            if reply_to_file:
                p = subprocess.run(["bash", "-c", "ulimit -v 8000000; exec \"$0\" \"$1\"", binary, outp], stdin=fin,
                                   stdout=subprocess.DEVNULL, stderr=subprocess.DEVNULL, timeout=timeout)
            else:
                with open(outp, "w") as fout:
                    p = subprocess.run([binary], stdin=fin, stdout=fout, stderr=subprocess.DEVNULL, timeout=timeout)
        if p.returncode != 0:
            status = "abort"
    except subprocess.TimeoutExpired:
        status = "hang"
    replies = []
    if os.path.exists(outp):
        replies = open(outp, errors="replace").read().split("\n")
        if replies and replies[-1] == "":
            replies.pop()
    for f in (inp, outp):
        try:
            os.remove(f)
        except OSError:
            pass
    return replies, status


def run_scripts(binary, scripts, is_model, timeout=120):
    """execute scripts (each after `reset`); returns per-script reply lists. A crash or hang of the
    process becomes the reply `abort` / `hang` of the line it happened on; later lines of that script
    get `-`, later scripts are run in a fresh process."""
    results = [None] * len(scripts)
    todo = list(range(len(scripts)))
    while todo:
        lines = []
        spans = []
        for i in todo:
            start = len(lines)
            lines.append("reset")
            lines.extend(scripts[i].text())
            spans.append((i, start, len(lines)))
        replies, status = run_stream(binary, lines, not is_model, timeout)
        nxt = []
        for (i, a, b) in spans:
            if b <= len(replies):
                results[i] = replies[a + 1:b]
            elif a < len(replies) or (a == len(replies) and status != "ok"):
                got = replies[a + 1:b] if a < len(replies) else []
                need = (b - a - 1) - len(got)
                bad = status if status != "ok" else "abort"
                results[i] = got + [bad] + ["-"] * (need - 1)
                status = "consumed"
            else:
                nxt.append(i)
        if len(nxt) == len(todo):
            # no progress: mark everything as aborted
            for i in nxt:
                results[i] = ["abort"] + ["-"] * (len(scripts[i].lines) - 1)
            break
        todo = nxt
    return results


def run_sharded(binary, scripts, is_model, shards=12, timeout=180):
    if not scripts:
        return []
    n = max(1, min(shards, len(scripts) // 8 + 1))
    chunks = [list(range(k, len(scripts), n)) for k in range(n)]
    out = [None] * len(scripts)

    def work(idx):
        rs = run_scripts(binary, [scripts[i] for i in idx], is_model, timeout)
        return idx, rs

    with ThreadPoolExecutor(max_workers=n) as ex:
        for idx, rs in ex.map(work, chunks):
            for i, r in zip(idx, rs):
                out[i] = r
    return out


# ------------------------------------------------------------------ comparison
PAIR_RE = re.compile(r"\((\d+),(\d+)\)")


def parse_pairs(reply):
    if not reply.startswith("pairs "):
        return None
    return [(int(a), int(b)) for a, b in PAIR_RE.findall(reply)]


def status_of(reply):
    return reply.split(" ")[0] if reply else ""


BYTES_RE = re.compile(r"(?<![a-z])x((?:[0-9a-f]{2})*)(?![0-9a-z])")


def norm(reply):
    """byte strings and lists of small numbers are the same value on the wire (`x0102` = `[1,2]`)"""
    if "x" not in reply:
        return reply
    return BYTES_RE.sub(lambda m: "[" + ",".join(str(b) for b in bytes.fromhex(m.group(1))) + "]", reply)


def canon_tree(j):
    """serde tree up to what C16 cares about: struct nodes are multisets of field values (names and
    order ignored), enum variants keep their name, `Some` is transparent, strings are byte lists"""
    if j is None:
        return "null"
    if isinstance(j, bool):
        return "1" if j else "0"
    if isinstance(j, int):
        return str(j if j >= 0 else j + (1 << 64))     # i64 payloads travel as bit patterns
    if isinstance(j, float):
        return repr(j)
    if isinstance(j, str):
        if j in ("Empty", "Zero"):
            return j
        return "[" + ",".join(str(b) for b in j.encode()) + "]"
    if isinstance(j, list):
        return "[" + ",".join(canon_tree(x) for x in j) + "]"
    if isinstance(j, dict):
        if len(j) == 1:
            (k, v), = j.items()
            if k == "Some":
                return canon_tree(v)
            if k[:1].isupper():
                return k + "(" + canon_tree(v) + ")"
        return "{" + ",".join(sorted(canon_tree(v) for v in j.values())) + "}"
    raise ValueError(j)


def tree_of(reply):
    if not reply.startswith("tree "):
        return reply
    try:
        return "tree " + canon_tree(json.loads(reply[5:]))
    except Exception as e:
        return reply


def model_agrees(line, impl, model):
    """does the model's reply agree with the implementation's on what this line compares"""
    mode = line.cmp
    if mode == "none" or impl == "-" or model == "-":
        return True
    if mode == "exact":
        return impl == model or norm(impl) == norm(model)
    if mode == "status":
        return status_of(impl) == status_of(model)
    if mode == "idx":
        if status_of(impl) != status_of(model):
            return False
        if status_of(impl) == "idx":
            return flatten_idx(impl[4:]) == flatten_idx(model[4:])
        return True
    if mode == "nouse":
        return impl.split(" used ")[0] == model.split(" used ")[0]
    if mode == "tree":
        return tree_of(impl) == tree_of(model)
    if mode == "heap":
        a, b = parse_pairs(impl), parse_pairs(model)
        if a is None or b is None:
            return impl == model
        # used bytes as a multiset (children may report in any order); capacities only as used <= cap
        return sorted(u for u, _ in a) == sorted(u for u, _ in b)
    raise ValueError(mode)


def check_exp(script, replies, n):
    """oracle: does the real crate's reply on line n meet the expectation; returns None or (expected, observed)"""
    line = script.lines[n]
    exp = line.exp
    got = replies[n]
    if exp is None or got in ("-", "poisoned"):
        return None
    kind = exp[0]
    if kind == "eq":
        return None if got == exp[1] or norm(got) == norm(exp[1]) else (exp[1], got)
    if kind == "any":
        return None if got in exp[1] else (" | ".join(exp[1]), got)
    if kind == "prefix":
        return None if got.startswith(exp[1]) else (exp[1] + "…", got)
    if kind == "pred":
        r = exp[1](got, replies)
        return None if r is None else (exp[2] + (": " + r if isinstance(r, str) else ""), got)
    if kind == "rel":
        other = replies[exp[1]]
        if other in ("-", "poisoned"):
            return None
        r = exp[2](got, other)
        return None if r is None else ("%s (line %d: %s)" % (exp[3], exp[1], other), got)
    if kind == "same":
        other = replies[exp[1]]
        if other == "-":
            return None
        f = exp[2] if len(exp) > 2 else (lambda x: x)
        return None if f(got) == f(other) else ("same as line %d: %s" % (exp[1], other), got)
    raise ValueError(kind)


class Failure:
    def __init__(self, kind, script, line_no, expected, observed, profile, model_reply=None):
        self.kind = kind            # impl-vs-oracle | impl-vs-model
        self.script = script
        self.line_no = line_no
        self.expected = expected
        self.observed = observed
        self.profile = profile
        self.model_reply = model_reply
        l = script.lines[line_no]
        self.signature = l.sig or (l.text.split(" ")[0] + "@" + script.entry)

    def to_replay(self, prop, seed, unchecked=None):
        return {
            "property": prop, "kind": self.kind, "entry": self.script.entry, "profile": self.profile, "seed": seed,
            "script": self.script.text()[: self.line_no + 1], "failing_line": self.script.lines[self.line_no].text,
            "expected": self.expected, "observed": self.observed, "model": self.model_reply,
            "signature": self.signature, "unchecked": unchecked,
        }


def evaluate(scripts, impl_replies, model_replies, profile):
    """returns (oracle_failures, model_failures, n_oracle_checks, n_model_checks)"""
    of, mf = [], []
    no = nm = 0
    for s, ir, mr in zip(scripts, impl_replies, model_replies):
        dead = False
        for n, line in enumerate(s.lines):
            if ir[n] == "-":
                break
            if line.exp is not None:
                no += 1
                r = check_exp(s, ir, n)
                if r is not None:
                    of.append(Failure("impl-vs-oracle", s, n, r[0], r[1], profile, mr[n] if mr else None))
                    break
            if ir[n] in ("abort", "hang"):
                of.append(Failure("impl-vs-oracle", s, n, "a reply", ir[n], profile, mr[n] if mr else None))
                break
            if mr is not None and s.model and not dead:
                nm += 1
                if not model_agrees(line, ir[n], mr[n]):
                    mf.append(Failure("impl-vs-model", s, n, mr[n], ir[n], profile, mr[n]))
                    dead = True   # after the first disagreement the two states differ
    return of, mf, no, nm


# ------------------------------------------------------------------ known findings, replays, evidence
def load_known():
    p = os.path.join(ROOT, "known_findings.json")
    if not os.path.exists(p):
        return []
    return json.load(open(p)).get("findings", [])


def write_replay(prop, rep):
    d = os.path.join(ROOT, "replays")
    os.makedirs(d, exist_ok=True)
    h = hashlib.sha1(json.dumps(rep, sort_keys=True).encode()).hexdigest()[:8]
    path = os.path.join(d, "%s-%s.json" % (prop, h))
    json.dump(rep, open(path, "w"), indent=1)
    return path


def write_evidence(prop, ev):
    d = os.path.join(ROOT, "evidence")
    os.makedirs(d, exist_ok=True)
    json.dump(ev, open(os.path.join(d, prop + ".json"), "w"), indent=1)
