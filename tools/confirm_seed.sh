#!/bin/bash
# Confirm a seeded change in a scratch worktree: existing suite passes with it, the demonstration
# fails with it and passes without it. usage: tools/confirm_seed.sh <dir with patch.diff and mutation_demo.rs>
set -u
d=$(realpath "$1"); w=/tmp/confirm-$$
git -C /repo worktree add -q --detach $w HEAD || exit 2
cd $w
export CARGO_NET_OFFLINE=true
git apply "$d/patch.diff" || { echo "PATCH-DOES-NOT-APPLY"; cd /; git -C /repo worktree remove --force $w; exit 2; }
suite=$(cargo test --offline --no-fail-fast 2>&1 | grep -E "^test result:" | awk '{p+=$4; f+=$6} END {print p" passed "f" failed"}')
[ -f "$d/demo-setup.diff" ] && git apply "$d/demo-setup.diff"
cp "$d/mutation_demo.rs" tests/mutation_demo.rs
with=$(cargo test --offline --test mutation_demo 2>&1 | grep -E "^test result:" | head -1)
git apply -R "$d/patch.diff"
without=$(cargo test --offline --test mutation_demo 2>&1 | grep -E "^test result:" | head -1)
echo "$(basename $d): suite-with-change: $suite | demo-with-change: $with | demo-without: $without"
cd /; git -C /repo worktree remove --force $w
