#!/bin/bash
# usage: tools/private_copy_try.sh <P> <seed-id> <props...> : expects /tmp/r9-out-<P>/{patch.diff,mutation_demo.rs,MUTATION.md}; imports the seed, then runs try_patch in a private copy (DESIGN 0.5)
P=$1; id=$2; shift 2
d=/verif/seeded/$id; mkdir -p $d
cp /tmp/r9-out-$P/patch.diff /tmp/r9-out-$P/mutation_demo.rs /tmp/r9-out-$P/MUTATION.md $d/
c=/tmp/pc-$id; rm -rf $c; mkdir -p $c
rsync -a --exclude .git --exclude work --exclude replays /verif/ $c/verif/
git -C /repo worktree add -q --detach $c/repo HEAD
sed -i "s#path = \"/repo\"#path = \"$c/repo\"#" $c/verif/harness/Cargo.toml
sed -i "s#/verif/harness/target#$c/verif/harness/target#" $c/verif/harness/.cargo/config.toml
cd $c/verif
FC_SRC=$c/repo/src FC_REPO=$c/repo python3 tools/try_patch.py $d/patch.diff "$@" > /tmp/r9-try-$id.txt 2>&1
cd /; git -C /repo worktree remove --force $c/repo; rm -rf $c
tail -3 /tmp/r9-try-$id.txt | cut -c1-400
