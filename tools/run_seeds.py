#!/usr/bin/env python3
"""Mutation regression: apply every seeded change in turn, run the checks of the properties it breaks, undo it.
Writes seeded/RESULTS.json. usage: tools/run_seeds.py [seed-id ...]"""
import json
import os
import subprocess
import sys
import time

ROOT = os.path.dirname(os.path.dirname(os.path.abspath(__file__)))
REPO = os.environ.get("FC_REPO", "/repo")   # a private checkout when a sandbox copy runs a shard of the regression
OUT = os.environ.get("FC_RESULTS", os.path.join(ROOT, "seeded", "RESULTS.json"))


def main():
    ids = sys.argv[1:] or sorted(d for d in os.listdir(os.path.join(ROOT, "seeded")) if os.path.isdir(os.path.join(ROOT, "seeded", d)))
    out = {}
    for sid in ids:
        d = os.path.join(ROOT, "seeded", sid)
        meta = json.load(open(os.path.join(d, "meta.json")))
        props = meta["breaks"]
        st = subprocess.run(["git", "-C", REPO, "status", "--porcelain", "--untracked-files=no"], capture_output=True, text=True).stdout
        if st.strip():
            sys.exit(REPO + " has local changes; refusing")
        subprocess.check_call(["git", "-C", REPO, "apply", os.path.join(d, "patch.diff")])
        res = {}
        t0 = time.time()
        try:
            for p in props:
                r = subprocess.run([os.path.join(ROOT, "check"), p], cwd=ROOT, capture_output=True, text=True)
                v = [l for l in r.stdout.split("\n") if l.startswith("VIOLATION")]
                res[p] = {"rc": r.returncode, "violations": len(v), "no_failing_input_only": bool(v) and all("no-failing-input-found" in l for l in v)}
        finally:
            subprocess.check_call(["git", "-C", REPO, "checkout", "--", "."])
        out[sid] = {"breaks": props, "result": res, "caught": all(x["rc"] == 1 for x in res.values()), "wall_s": round(time.time() - t0)}
        print(sid, "CAUGHT" if out[sid]["caught"] else "MISSED", {p: x["rc"] for p, x in res.items()}, flush=True)
        json.dump(out, open(OUT, "w"), indent=1)


if __name__ == "__main__":
    main()
