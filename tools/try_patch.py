#!/usr/bin/env python3
"""Apply a seeded change to /repo, run the given checks, and undo it straight afterwards.
usage: tools/try_patch.py <patch.diff> <prop> [<prop> ...]   (prop 'all' = every registered check)"""
import json
import os
import subprocess
import sys

ROOT = os.path.dirname(os.path.dirname(os.path.abspath(__file__)))
REPO = os.environ.get("FC_REPO", "/repo")   # a private checkout when experimenting in a sandbox copy


def main():
    patch = os.path.abspath(sys.argv[1])
    props = sys.argv[2:]
    if props == ["all"]:
        props = [c["property_id"] for c in json.load(open(os.path.join(ROOT, "MANIFEST.json")))["checks"]]
    st = subprocess.run(["git", "-C", REPO, "status", "--porcelain", "--untracked-files=no"], capture_output=True, text=True).stdout
    if st.strip():
        sys.exit(REPO + " has local changes; refusing")
    subprocess.check_call(["git", "-C", REPO, "apply", patch])
    results = {}
    try:
        for p in props:
            r = subprocess.run([os.path.join(ROOT, "check"), p], cwd=ROOT, capture_output=True, text=True)
            lines = [l for l in r.stdout.split("\n") if l.startswith("VIOLATION") or l.startswith("KNOWN")]
            results[p] = (r.returncode, lines, r.stderr.strip().split("\n")[-1])
            print(p, "rc=%d" % r.returncode, "; ".join(lines)[:300], "|", results[p][2][:200], flush=True)
    finally:
        subprocess.check_call(["git", "-C", REPO, "checkout", "--", "."])
    caught = [p for p, (rc, _, _) in results.items() if rc != 0]
    print("CAUGHT-BY:", " ".join(caught) if caught else "none")


if __name__ == "__main__":
    main()
