#!/usr/bin/env python3
"""Generate harness/src/generated.rs and lean/FlatModel/Generated/Catalogue.lean from catalogue.txt."""
import os
import sys

sys.path.insert(0, os.path.dirname(__file__))
import fcat
from fcat import Term, index_of, rust_type, rust_owned, lean_type, lean_index, rust_cont, lean_cont, caps

ROOT = os.path.dirname(os.path.dirname(os.path.abspath(__file__)))


# ------------------------------------------------------------------ input forms
class View:
    def __init__(self, name, expr):
        self.name = name
        self.expr = expr  # function of x (an expression of type &Owned) -> expression


def copyprim(t):
    return t.kind in ("mirror",) or (t.kind == "vecregion" and t.args[0].kind != "string_t")


def views(t):
    """by-value presentations of `x: &Owned(t)` that the region `t` accepts as push input"""
    k = t.kind
    a = t.args
    # owned vectors and strings arrive with spare capacity (a `Vec` built by pushing is rarely exactly full)
    own = View("own", (lambda x: "(*%s)" % x) if copyprim(t) else (lambda x: "crate::val::Spare::spare(%s.clone())" % x))
    ref = View("ref", lambda x: x)
    if k == "mirror":
        return [own, ref]
    if k == "string":
        return [own, ref, View("str", lambda x: "%s.as_str()" % x)]
    if k in ("owned", "huffman"):
        return [own, ref, View("slice", lambda x: "%s.as_slice()" % x)]
    if k == "vecregion":
        return [own, ref]
    if k == "codec":
        return [View("slice", lambda x: "%s.as_slice()" % x)]
    if k in ("slice", "columns"):
        inner = {v.name for v in views(a[0])}
        out = []
        if "own" in inner:
            out.append(own)
        if "ref" in inner:
            out.append(ref)
            out.append(View("slice", lambda x: "%s.as_slice()" % x))
        return out
    if k in ("option", "result", "tuple"):
        inner = [{v.name for v in views(x)} for x in t.sub()]
        out = []
        if all("own" in s for s in inner):
            out.append(own)
        if all("ref" in s for s in inner):
            out.append(ref)
            if k in ("option", "result"):
                # `Option<&T>` / `Result<&T, &E>` by value: the inner regions take references
                out.append(View("asref", lambda x: "%s.as_ref()" % x))
        if not out and all(inner):
            # no uniform presentation (e.g. a codec field only takes `&[u8]`): each child in its own first form
            vs = [views(x)[0] for x in t.sub()]
            if k == "option":
                out.append(View("mix", lambda x: "%s.as_ref().map(|y| %s)" % (x, vs[0].expr("y"))))
            elif k == "result":
                out.append(View("mix", lambda x: "match %s { Ok(y) => Ok(%s), Err(y) => Err(%s) }" % (x, vs[0].expr("y"), vs[1].expr("y"))))
            else:
                out.append(View("mix", lambda x: "(%s,)" % ", ".join(v.expr("(&%s.%d)" % (x, i)) for i, v in enumerate(vs))))
        return out
    if k == "consec":
        return views(a[0])
    if k == "collapse":
        # `T: PartialEq<R::ReadItem<'_>>`
        base = a[0]
        while base.kind in ("consec", "collapse"):
            base = base.args[0]
        if base.kind == "string":
            names = {"own", "ref", "str"}
        elif base.kind == "mirror":
            names = {"own"}
        elif base.kind in ("owned", "codec"):
            names = {"own", "ref", "slice"}
        else:
            names = set()
        return [v for v in views(a[0]) if v.name in names]
    raise ValueError(k)


def supports_item(t):
    k = t.kind
    if k in ("mirror", "string", "owned", "vecregion", "huffman", "codec"):
        return True
    if k in ("slice", "columns", "option", "consec"):
        return supports_item(t.args[0])
    if k in ("result", "tuple"):
        return all(supports_item(x) for x in t.sub())
    if k == "collapse":
        base = t.args[0]
        while base.kind in ("consec", "collapse"):
            base = base.args[0]
        return base.kind in ("string", "owned", "codec", "mirror") and supports_item(t.args[0])
    return False


def ord_ok(t):
    k = t.kind
    if k in ("mirror", "owned"):
        return t.args[0].kind not in fcat.SIGNED_OR_FLOAT
    if k in ("string", "vecregion", "huffman", "codec"):
        return True
    if k in ("slice", "option", "consec", "collapse"):
        return ord_ok(t.args[0])
    if k in ("result", "tuple"):
        return len(t.args) <= 12 and all(ord_ok(x) for x in t.sub())
    return False


class Form:
    """name; tmp(w) builds a temporary from `w: &Owned`; view(t) the pushed expression;
    consuming: view takes `t` by value, otherwise `t: &Tmp`; array: needs a const length"""

    def __init__(self, name, tmp, view, consuming, array=False, reserve=None, cls="own"):
        self.name, self.tmp, self.view, self.consuming, self.array = name, tmp, view, consuming, array
        self.reserve = reserve  # None: no ReserveItems impl for the pushed type
        self.cls = cls


def forms(t):
    k = t.kind
    a = t.args
    vs = views(t)
    out = []
    for v in vs:
        if v.name == "own":
            out.append(Form("own", v.expr, lambda t_: t_, True))
        elif v.name == "mix":
            out.append(Form("mix", v.expr, lambda t_: t_, True))
        elif v.name == "ref":
            out.append(Form("ref", lambda w: "%s.clone()" % w if not copyprim(t) else "(*%s)" % w, lambda t_: t_, False))
        else:
            out.append(Form(v.name, (lambda e: lambda w: e(w))(v.expr), lambda t_: "*%s" % t_, False))
    names = {v.name for v in vs}
    base = t
    while base.kind in ("consec",):
        base = base.args[0]
    bk = base.kind
    transparent = t.kind in ("consec",) or t is base
    if not transparent:
        bk = None
    if bk in ("mirror", "vecregion") and "ref" in names:
        out.append(Form("refref", lambda w: w, lambda t_: t_, False))
    if bk == "string" and "str" in names:
        out.append(Form("refstr", lambda w: "%s.as_str()" % w, lambda t_: t_, False))
    if bk == "owned":
        out.append(Form("refslice", lambda w: "%s.as_slice()" % w, lambda t_: t_, False))
        out.append(Form("array", lambda w: "%s.clone()" % w, lambda t_: t_, True, array=True))
        out.append(Form("refarray", lambda w: "%s.clone()" % w, lambda t_: "&" + t_, True, array=True))
        out.append(Form("refrefarray", lambda w: "%s.clone()" % w, lambda t_: "&&" + t_, True, array=True))
        out.append(Form("iter", lambda w: "%s.clone()" % w, lambda t_: "PushIter(%s)" % t_, True))
    if bk == "huffman":
        out.append(Form("array", lambda w: "%s.clone()" % w, lambda t_: t_, True, array=True))
        out.append(Form("refarray", lambda w: "%s.clone()" % w, lambda t_: "&" + t_, True, array=True))
    if bk == "slice":
        inner = {v.name: v for v in views(base.args[0])}
        if "ref" in inner:
            out.append(Form("refrefvec", lambda w: w, lambda t_: t_, False))
            out.append(Form("array", lambda w: "%s.clone()" % w, lambda t_: t_, True, array=True))
            out.append(Form("refarray", lambda w: "%s.clone()" % w, lambda t_: "&" + t_, True, array=True))
            out.append(Form("refrefarray", lambda w: "%s.clone()" % w, lambda t_: "&&" + t_, True, array=True))
        ik = base.args[0].kind
        for evn in ("str", "slice"):
            if evn in inner and ik in ("string", "owned"):
                ev = inner[evn]
                mk = (lambda ev: lambda w: "%s.iter().map(|x| %s).collect::<Vec<_>>()" % (w, ev.expr("x")))(ev)
                out.append(Form("vec:" + evn, mk, lambda t_: t_, True))
                out.append(Form("slice:" + evn, mk, lambda t_: "%s.as_slice()" % t_, False))
    if bk == "columns":
        inner = {v.name: v for v in views(base.args[0])}
        if "own" in inner:
            out.append(Form("array", lambda w: "%s.clone()" % w, lambda t_: t_, True, array=True))
            out.append(Form("iter", lambda w: "%s.clone()" % w, lambda t_: "PushIter(%s)" % t_, True))
        if "ref" in inner:
            out.append(Form("refarray", lambda w: "%s.clone()" % w, lambda t_: "&" + t_, True, array=True))
        ik = base.args[0].kind
        for evn in ("str", "slice"):
            if evn in inner and ik in ("string", "owned"):
                ev = inner[evn]
                mk = (lambda ev: lambda w: "%s.iter().map(|x| %s).collect::<Vec<_>>()" % (w, ev.expr("x")))(ev)
                out.append(Form("vec:" + evn, mk, lambda t_: t_, True))
    return out


def reserve_forms(t):
    """forms for which the crate has a ReserveItems impl: name -> (tmp, view)"""
    k = t.kind
    if not caps(t)["reserve_items"]:
        return []
    base = t
    while base.kind == "consec":
        base = base.args[0]
    bk = base.kind

    def ok(r):
        return {f for f in reserve_names(r)}

    return sorted(reserve_names(t))


def reserve_names(t):
    k = t.kind
    a = t.args
    if k == "mirror":
        return {"own", "ref"}
    if k == "string":
        return {"ref", "str", "refstr"} if reserve_names(a[0]) >= {"slice"} else set()
    if k == "owned":
        return {"ref", "slice", "refarray", "iter"}
    if k == "vecregion":
        return {"own", "ref"}
    if k == "slice":
        inner = reserve_names(a[0])
        return {"ref", "slice", "refarray"} if "ref" in inner else set()
    if k in ("option", "result", "tuple"):
        inner = [reserve_names(x) for x in t.sub()]
        out = set()
        if all("own" in s for s in inner):
            out.add("own")
        if all("ref" in s for s in inner):
            out.add("ref")
            if k in ("option", "result"):
                out.add("asref")
        return out
    if k == "consec":
        return reserve_names(a[0])
    return set()


# ------------------------------------------------------------------ Rust emission
def emit_rust(entries, stacks):
    o = []
    w = o.append
    w("// @generated by tools/gen_catalogue.py from catalogue.txt -- do not edit")
    w("#![allow(unused_variables, unused_mut, unused_parens, clippy::all)]")
    w("use crate::entry::*;")
    w("use flatcontainer::impls::codec::{CodecRegion, DictionaryCodec};")
    w("use flatcontainer::impls::deduplicate::{CollapseSequence, ConsecutiveIndexPairs};")
    w("use flatcontainer::impls::huffman_container::HuffmanContainer;")
    w("use flatcontainer::impls::index::{IndexList, IndexOptimized};")
    w("use flatcontainer::*;")
    w("")
    w("macro_rules! with_array { ($v:expr, $a:ident => $body:expr) => { match $v.len() {")
    for n in range(0, 5):
        w("    %d => { let $a: [_; %d] = match $v.try_into() { Ok(a) => a, Err(_) => unreachable!() }; $body }" % (n, n))
    w("    _ => return None } } }")
    w("macro_rules! with_arrays { ($ws:expr, $n:expr, $ts:ident => $body:expr) => { match $n {")
    for n in range(0, 5):
        w("    %d => { let $ts: Vec<[_; %d]> = $ws.iter().map(|w| match w.clone().try_into() { Ok(a) => a, Err(_) => unreachable!() }).collect(); $body }" % (n, n))
    w("    _ => return None } } }")
    w("")
    for n, t in enumerate(entries):
        ty = "E%d" % n
        c = caps(t)
        fs = forms(t)
        rn = reserve_names(t) if c["reserve_items"] else set()
        w("// %s" % t)
        w("pub type %s = %s;" % (ty, rust_type(t)))
        w("impl Cat for %s {" % ty)
        names = [f.name for f in fs]
        if supports_item(t):
            names += ["item", "itemowned"]
        w("    const FORMS: &'static [&'static str] = &[%s];" % ", ".join('"%s"' % x for x in names))
        # push_form
        w("    fn push_form<K: Sink<Self>>(sink: &mut K, form: &str, w: &Self::Owned) -> Option<K::Out> {")
        w("        Some(match form {")
        for f in fs:
            if f.array:
                w('            "%s" => { let t0 = %s; with_array!(t0, t => sink.put(%s)) }' % (f.name, f.tmp("w"), f.view("t")))
            elif f.consuming:
                w('            "%s" => { let t = %s; sink.put(%s) }' % (f.name, f.tmp("w"), f.view("t")))
            else:
                w('            "%s" => { let t0 = %s; let t = &t0; sink.put(%s) }' % (f.name, f.tmp("w"), f.view("t")))
        if supports_item(t):
            f0 = fs[0] if fs else None
            if f0 is not None:
                if f0.consuming:
                    canon = "{ let t = %s; Push::push(&mut tmp, %s) }" % (f0.tmp("w"), f0.view("t"))
                else:
                    canon = "{ let t0 = %s; let t = &t0; Push::push(&mut tmp, %s) }" % (f0.tmp("w"), f0.view("t"))
                w('            "item" => { let mut tmp = <Self as Default>::default(); let i = %s; sink.put(tmp.index(i)) }' % canon)
            else:
                # no direct input form (e.g. collapse over slices): the item comes from the inner region type
                inner = t.args[0]
                fi = forms(inner)[0]
                canon = "{ let t = %s; Push::push(&mut tmp, %s) }" % (fi.tmp("w"), fi.view("t")) if fi.consuming else \
                    "{ let t0 = %s; let t = &t0; Push::push(&mut tmp, %s) }" % (fi.tmp("w"), fi.view("t"))
                w('            "item" => { let mut tmp = <%s as Default>::default(); let i = %s; sink.put(tmp.index(i)) }' % (rust_type(inner), canon))
            w('            "itemowned" => { sink.put(<Self::ReadItem<\'_> as IntoOwned>::borrow_as(w)) }')
        w("            _ => return None,")
        w("        })")
        w("    }")
        # push_all_form / from_all_form
        for fn, call, ret in (("push_all_form<K: Sink<Self>>(sink: &mut K, form: &str, ws: &[Self::Owned]) -> Option<()>", "sink.put_all(%s)", "()"),
                              ("from_all_form<K: Sink<Self>>(form: &str, ws: &[Self::Owned]) -> Option<K>", "K::from_all(%s)", ""),
                              ("push_all_loose_form<K: Sink<Self>>(sink: &mut K, form: &str, ws: &[Self::Owned]) -> Option<()>", "sink.put_all_loose(%s)", "()"),
                              ("from_all_loose_form<K: Sink<Self>>(form: &str, ws: &[Self::Owned]) -> Option<K>", "K::from_all_loose(%s)", "")):
            w("    fn %s {" % fn)
            w("        Some(match form {")
            for f in fs:
                if f.array:
                    continue
                if f.consuming:
                    w('            "%s" => { let xs: Vec<_> = ws.iter().map(|w| { let t = %s; %s }).collect(); %s }' % (
                        f.name, f.tmp("w"), f.view("t"), call % "xs"))
                else:
                    w('            "%s" => { let ts: Vec<_> = ws.iter().map(|w| %s).collect(); let xs: Vec<_> = ts.iter().map(|t| %s).collect(); %s }' % (
                        f.name, f.tmp("w"), f.view("t"), call % "xs"))
            if supports_item(t):
                w('            "itemowned" => { let xs: Vec<_> = ws.iter().map(|w| <Self::ReadItem<\'_> as IntoOwned>::borrow_as(w)).collect(); %s }' % (call % "xs"))
            w("            _ => return None,")
            w("        })")
            w("    }")
        # reserve_form
        w("    fn reserve_form(&mut self, form: &str, ws: &[Self::Owned], loose: bool) -> Option<()> {")
        w("        Some(match form {")
        # `loose`: the same announcement through an iterator without a useful size hint (lower bound 0)
        for f in fs:
            if f.name not in rn:
                continue
            if f.array:
                # a batch of arrays of one common length: `&[T; N]` items
                if f.view("t") != "&t":
                    continue
                w('            "%s" => { let n = ws.first().map_or(0, |w| w.len()); if ws.iter().any(|w| w.len() != n) { return None; }' % f.name)
                w('                with_arrays!(ws, n, ts => if loose { self.reserve_items(ts.iter().filter(|_| true)) } else { self.reserve_items(ts.iter()) }) }')
            elif f.consuming:
                w('            "%s" => { let xs: Vec<_> = ws.iter().map(|w| { let t = %s; %s }).collect(); if loose { self.reserve_items(xs.into_iter().filter(|_| true)) } else { self.reserve_items(xs.into_iter()) } }' % (
                    f.name, f.tmp("w"), f.view("t")))
            else:
                w('            "%s" => { let ts: Vec<_> = ws.iter().map(|w| %s).collect(); if loose { self.reserve_items(ts.iter().map(|t| %s).filter(|_| true)) } else { self.reserve_items(ts.iter().map(|t| %s)) } }' % (
                    f.name, f.tmp("w"), f.view("t"), f.view("t")))
        w("            _ => return None,")
        w("        })")
        w("    }")
        # push_item
        w("    fn push_item(&mut self, src: &Self, index: Self::Index, borrowed: bool) -> Option<Self::Index> {")
        if supports_item(t):
            w("        if borrowed { let owned = src.index(index).into_owned(); let item = <Self::ReadItem<'_> as IntoOwned>::borrow_as(&owned); Some(Sink::put(self, item)) }")
            w("        else { Some(Sink::put(self, src.index(index))) }")
        else:
            w("        None")
        w("    }")
        if c["clone"]:
            w("    fn try_clone(&self) -> Option<Self> { Some(self.clone()) }")
            w("    fn try_clone_from(&mut self, src: &Self) -> Option<()> { self.clone_from(src); Some(()) }")
        else:
            w("    fn try_clone(&self) -> Option<Self> { None }")
            w("    fn try_clone_from(&mut self, src: &Self) -> Option<()> { None }")
        if c["serde"]:
            w("    fn ser(&self) -> Option<String> { serde_json::to_string(self).ok() }")
            w("    fn de(text: &str) -> Option<Self> { serde_json::from_str(text).ok() }")
        else:
            w("    fn ser(&self) -> Option<String> { None }")
            w("    fn de(text: &str) -> Option<Self> { None }")
        w("    fn cmp_items(a: &Self, ia: Self::Index, ba: bool, b: &Self, ib: Self::Index, bb: bool) -> Option<(bool, i8, Option<i8>)> {")
        if ord_ok(t):
            w("        let (oa, ob) = (a.index(ia).into_owned(), b.index(ib).into_owned());")
            w("        let x = if ba { <Self::ReadItem<'_> as IntoOwned>::borrow_as(&oa) } else { a.index(ia) };")
            w("        let y = if bb { <Self::ReadItem<'_> as IntoOwned>::borrow_as(&ob) } else { b.index(ib) };")
            w("        Some((x == y, x.cmp(&y) as i8, x.partial_cmp(&y).map(|o| o as i8)))")
        else:
            w("        None")
        w("    }")
        w("}")
        w("")
    # stacks
    w("macro_rules! stack_caps {")
    w("    ($t:ty, serde) => { impl StackCaps for $t { fn try_clone(&self) -> Option<Self> { Some(self.clone()) } fn try_clone_from(&mut self, s: &Self) -> Option<()> { self.clone_from(s); Some(()) } fn ser(&self) -> Option<String> { serde_json::to_string(self).ok() } fn de(text: &str) -> Option<Self> { serde_json::from_str(text).ok() } } };")
    w("    ($t:ty, clone) => { impl StackCaps for $t { fn try_clone(&self) -> Option<Self> { Some(self.clone()) } fn try_clone_from(&mut self, s: &Self) -> Option<()> { self.clone_from(s); Some(()) } fn ser(&self) -> Option<String> { None } fn de(_text: &str) -> Option<Self> { None } } };")
    w("    ($t:ty, none) => { impl StackCaps for $t { fn try_clone(&self) -> Option<Self> { None } fn try_clone_from(&mut self, s: &Self) -> Option<()> { None } fn ser(&self) -> Option<String> { None } fn de(_text: &str) -> Option<Self> { None } } }; }")
    for (n, t, c) in stacks:
        sty = "FlatStack<E%d, %s>" % (n, rust_cont(c, index_of(t)))
        w("stack_caps!(%s, %s);" % (sty, "serde" if caps(t)["serde"] else ("clone" if caps(t)["clone"] else "none")))
    w("")
    w("pub fn new_entry(name: &str) -> Option<Box<dyn Entry>> {")
    w("    Some(match name {")
    for n, t in enumerate(entries):
        w('        "%s" => Reg::<E%d>::boxed(),' % (t, n))
    for (n, t, c) in stacks:
        w('        "stack(%s,%s)" => Box::new(Stack::<E%d, %s> { fs: Default::default() }),' % (t, c, n, rust_cont(c, index_of(t))))
    w("        _ => return None,")
    w("    })")
    w("}")
    w("")
    w("pub fn forms_of(name: &str) -> Option<&'static [&'static str]> {")
    w("    Some(match name {")
    for n, t in enumerate(entries):
        w('        "%s" => <E%d as Cat>::FORMS,' % (t, n))
    w("        _ => return None,")
    w("    })")
    w("}")
    w("")
    w("pub fn index_size(name: &str) -> Option<usize> {")
    w("    Some(match name {")
    for n, t in enumerate(entries):
        w('        "%s" => std::mem::size_of::<<E%d as Region>::Index>(),' % (t, n))
    w("        _ => return None,")
    w("    })")
    w("}")
    return "\n".join(o) + "\n"


def stack_conts(t):
    ix = index_of(t)
    cs = [Term("vec")]
    if ix == ("nat",):
        cs += [Term("opt"), Term("list")]
    return cs


def main():
    entries = fcat.load(os.path.join(ROOT, "catalogue.txt"))
    stacks = []
    for n, t in enumerate(entries):
        for c in stack_conts(t):
            stacks.append((n, t, c))
    rs = emit_rust(entries, stacks)
    path = os.path.join(ROOT, "harness", "src", "generated.rs")
    if not os.path.exists(path) or open(path).read() != rs:
        open(path, "w").write(rs)
    import gen_lean
    forms_of = {}
    ord_of = {}
    for t in entries:
        names = [f.name for f in forms(t)]
        if supports_item(t):
            names += ["item", "itemowned"]
        forms_of[str(t)] = names
        ord_of[str(t)] = ord_ok(t)
    gen_lean.write(entries, stacks, forms_of, ord_of)
    import gen_covered_universe
    gen_covered_universe.main()
    import gen_covered_universe_ops
    gen_covered_universe_ops.main()
    # machine-readable summary for the check driver
    import json
    summ = []
    for n, t in enumerate(entries):
        names = [f.name for f in forms(t)]
        arr = [f.name for f in forms(t) if f.array]
        if supports_item(t):
            names += ["item", "itemowned"]
        summ.append({"entry": str(t), "forms": names, "array_forms": arr,
                     "reserve_forms": sorted(reserve_names(t) & set(names)) if caps(t)["reserve_items"] else [],
                     "reserve_array_forms": sorted(f.name for f in forms(t) if f.array and f.view("t") == "&t" and f.name in reserve_names(t)) if caps(t)["reserve_items"] else [],
                     "caps": caps(t), "item": supports_item(t), "ord": ord_ok(t),
                     "stacks": [str(c) for c in stack_conts(t)], "index_size": fcat.layout(index_of(t))[0]})
    jp = os.path.join(ROOT, "catalogue.json")
    js = json.dumps(summ, indent=1)
    if not os.path.exists(jp) or open(jp).read() != js:
        open(jp, "w").write(js)


if __name__ == "__main__":
    main()
