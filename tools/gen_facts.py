#!/usr/bin/env python3
"""Extract from /repo/src the program-text facts C04 quantifies over and write them as Lean data
(lean/FlatModel/Generated/SourceFacts.lean). Anything the extractor does not recognise becomes an
`other` constructor, which the theorems in Props/C04.lean reject — it never guesses.

Also extracted (C07): the tuning constant of the heavy-hitter summary, the literal `N` of `Vec::with_capacity(N)` in
`impl<T> Default for MisraGries<T>` (`mgCapacity`; the model's `MG.cap`, the theorems of Props/C07*.lean and the
generator tools/props/c07.py follow it). If the shape is not recognised the value emitted is 0, which
`FC.Codec.MG.two_le_cap` (Proofs/MGCap.lean, `by decide`) rejects."""
import os
import re
import sys

ROOT = os.path.dirname(os.path.dirname(os.path.abspath(__file__)))
SRC = os.environ.get("FC_SRC", "/repo/src")


def strip_comments(text):
    text = re.sub(r"/\*.*?\*/", lambda m: "\n" * m.group(0).count("\n"), text, flags=re.S)
    out = []
    for line in text.split("\n"):
        # string literals in this crate never contain `//`; keep it simple but safe for `"…//…"`
        i = line.find("//")
        if i >= 0 and line[:i].count('"') % 2 == 0:
            line = line[:i]
        out.append(line)
    return "\n".join(out)


def enclosing_fn(text, pos):
    m = None
    for m in re.finditer(r"\bfn\s+([A-Za-z_0-9]+)", text[:pos]):
        pass
    return m.group(1) if m else "?"


def enclosing_impl(text, pos):
    m = None
    for m in re.finditer(r"^impl\b[^{;]*\{", text[:pos], flags=re.M):
        pass
    return re.sub(r"\s+", " ", m.group(0)) if m else "?"


def block_after(text, pos):
    """the brace-balanced block starting at the first `{` at or after pos"""
    i = text.index("{", pos)
    depth = 0
    for j in range(i, len(text)):
        if text[j] == "{":
            depth += 1
        elif text[j] == "}":
            depth -= 1
            if depth == 0:
                return text[i:j + 1]
    return text[i:]


MG_DEFAULT_RE = re.compile(r"^\{fndefault\(\)->Self\{Self\{inner:Vec::with_capacity\(([0-9][0-9_]*)(?:usize)?\),?\}\}\}$")


def mg_capacity(lib):
    """(N, None) for the one `impl<T> Default for MisraGries<T> { fn default() -> Self { Self { inner: Vec::with_capacity(N) } } }`
    of the library text `lib`, when every summary in the file is built by `MisraGries::default()`; else (None, why)"""
    heads = list(re.finditer(r"^\s*impl\s*<\s*T\s*>\s*Default\s+for\s+MisraGries\s*<\s*T\s*>\s*\{", lib, flags=re.M))
    if len(heads) != 1:
        return None, "%d `impl<T> Default for MisraGries<T>` blocks" % len(heads)
    body = re.sub(r"\s+", "", block_after(lib, heads[0].start()))
    m = MG_DEFAULT_RE.match(body)
    if not m:
        return None, "body of `default` is not `Self { inner: Vec::with_capacity(<literal>) }`: " + body[:120]
    if re.search(r"\bMisraGries\s*(::\s*<[^>]*>\s*)?::\s*with_capacity\s*\(", lib):
        return None, "a summary is built by `MisraGries::with_capacity(..)`, not by `default()`"
    return int(m.group(1).replace("_", "")), None


def main():
    unsafe_sites = []
    mg_cap, mg_why = None, "src/impls/codec.rs not found"
    push_impls = []
    mutators = []
    inner_private = None
    files = []
    for dp, _, fns in os.walk(SRC):
        for fn in sorted(fns):
            if fn.endswith(".rs"):
                files.append(os.path.join(dp, fn))
    for path in sorted(files):
        rel = os.path.relpath(path, SRC)
        text = strip_comments(open(path).read())
        # test modules are not part of the library
        cut = text.find("#[cfg(test)]")
        lib = text if cut < 0 else text[:cut]
        for m in re.finditer(r"\bunsafe\b", lib):
            unsafe_sites.append((rel, enclosing_impl(lib, m.start()), enclosing_fn(lib, m.start())))
        if rel == os.path.join("impls", "codec.rs"):
            mg_cap, mg_why = mg_capacity(lib)
        if rel == os.path.join("impls", "string.rs"):
            sm = re.search(r"pub struct StringRegion\b[^{;]*\{([^}]*)\}", lib)
            if sm:
                fields = [f.strip() for f in sm.group(1).split(",") if f.strip()]
                inner_private = all(not re.match(r"pub\b", re.sub(r"#\[[^\]]*\]\s*", "", f)) for f in fields)
        for m in re.finditer(r"^impl\b([^{;]*?)\bfor\s+StringRegion\b[^{]*\{", lib, flags=re.M):
            head = re.sub(r"\s+", " ", m.group(0))
            body = block_after(lib, m.start())
            pm = re.search(r"\bPush<(.*)>\s+for\s+StringRegion", head)
            if pm:
                ty = pm.group(1).strip()
                fb = re.search(r"fn\s+push\s*\([^)]*\)[^{]*", body)
                fbody = block_after(body, fb.start()) if fb else ""
                stmts = re.sub(r"\s+", "", fbody)
                push_impls.append((ty, stmts))
            for fm in re.finditer(r"fn\s+([A-Za-z_0-9]+)\s*(<[^>]*>)?\s*\(\s*&mut\s+self", body):
                mutators.append(fm.group(1))
        for m in re.finditer(r"^impl\b[^{;]*\bStringRegion<[^{]*\{", lib, flags=re.M):
            head = re.sub(r"\s+", " ", m.group(0))
            if " for " in head:
                continue
            body = block_after(lib, m.start())
            for fm in re.finditer(r"fn\s+([A-Za-z_0-9]+)\s*(<[^>]*>)?\s*\(\s*&mut\s+self", body):
                mutators.append(fm.group(1))

    def file_c(rel):
        return ".implsString" if rel == os.path.join("impls", "string.rs") else ".other"

    def fn_c(impl, fn):
        if fn == "index" and re.search(r"\bRegion\s+for\s+StringRegion\b", impl):
            return ".regionIndex"
        return ".other"

    TY = {"String": ".string", "&String": ".refString", "&str": ".str", "&&str": ".refStr"}
    BODY = {"{self.push(item.as_str())}": ".asStr", "{self.inner.push(item.as_bytes())}": ".asBytes",
            "{self.push(*item)}": ".deref"}
    MUT = {"push": ".push", "reserve_items": ".reserveItems", "reserve_regions": ".reserveRegions", "clear": ".clear",
           "clone_from": ".cloneFrom"}

    o = []
    w = o.append
    w("-- @generated by tools/gen_facts.py from %s -- do not edit" % SRC)
    w("/-! Program-text facts about the crate, re-extracted on every run (C04). -/")
    w("namespace FC.Generated")
    w("inductive SrcFile | implsString | other deriving DecidableEq, Repr")
    w("inductive FnSite | regionIndex | other deriving DecidableEq, Repr")
    w("inductive InTy | string | refString | str | refStr | other deriving DecidableEq, Repr")
    w("inductive Body | asStr | asBytes | deref | other deriving DecidableEq, Repr")
    w("inductive Mutator | push | reserveItems | reserveRegions | clear | cloneFrom | other deriving DecidableEq, Repr")
    w("/-- every `unsafe` in the library (outside test modules): file and enclosing function -/")
    w("def unsafeSites : List (SrcFile × FnSite) := [%s]" % ", ".join("(%s, %s)" % (file_c(f), fn_c(i, n)) for f, i, n in unsafe_sites))
    w("/-- every `impl Push<X> for StringRegion<_>`: the input type X and the shape of the body of `push` -/")
    w("def stringPushImpls : List (InTy × Body) := [%s]" % ", ".join("(%s, %s)" % (TY.get(t, ".other"), BODY.get(b, ".other")) for t, b in push_impls))
    w("/-- the storage field of `StringRegion` is not `pub` -/")
    w("def stringInnerPrivate : Bool := %s" % ("true" if inner_private else "false"))
    w("/-- every `&mut self` method implemented for `StringRegion` -/")
    w("def stringMutators : List Mutator := [%s]" % ", ".join(MUT.get(m, ".other") for m in mutators))
    w("/-- the literal `N` of `Vec::with_capacity(N)` in `impl<T> Default for MisraGries<T>` (src/impls/codec.rs): the number of raw")
    w("entries at which the heavy-hitter summary compacts (C07). `0` = shape not recognised (rejected by `FC.Codec.MG.two_le_cap`). -/")
    if mg_cap is not None:
        w("def mgCapacity : Nat := %d" % mg_cap)
    else:
        w("def mgCapacity : Nat := 0 -- not recognised: %s" % re.sub(r"\s+", " ", mg_why).replace("-/", "- /"))
    w("end FC.Generated")
    text = "\n".join(o) + "\n"
    path = os.path.join(ROOT, "lean", "FlatModel", "Generated", "SourceFacts.lean")
    os.makedirs(os.path.dirname(path), exist_ok=True)
    if not os.path.exists(path) or open(path).read() != text:
        open(path, "w").write(text)
    # human-readable copy for the evidence
    import json
    json.dump({"unsafe_sites": unsafe_sites, "string_push_impls": push_impls, "string_inner_private": inner_private,
               "string_mutators": mutators, "mg_capacity": mg_cap, "mg_capacity_unrecognised": mg_why}, open(os.path.join(ROOT, "work", "source_facts.json"), "w") if os.path.isdir(os.path.join(ROOT, "work")) else open(os.devnull, "w"), indent=1)


if __name__ == "__main__":
    main()
