#!/usr/bin/env python3
"""Extract the source facts C04 quantifies over (filled in with the C04 check)."""
