"""Catalogue of region compositions: parsing, type mapping (Rust / Lean), value generation.

Grammar (see DESIGN.md Appendix A):
  mirror(P) owned(P) vecregion(P|string) string(B) huffman(u8|u16) codec option(R) result(R,R)
  tuple(R,...) slice(R,C) collapse(R) consec(R,C) columns(R,C)   C in {vec,opt,list}
"""
import struct

PRIMS = {
    # name: (rust type, size, lean value type, bits)
    "u8": ("u8", 1, "Nat", 8), "u16": ("u16", 2, "Nat", 16), "u32": ("u32", 4, "Nat", 32),
    "u64": ("u64", 8, "Nat", 64), "usize": ("usize", 8, "Nat", 64), "u128": ("u128", 16, "Nat", 128),
    "i64": ("i64", 8, "Nat", 64), "bool": ("bool", 1, "Nat", 1), "char": ("char", 4, "Nat", 21),
    "f64": ("f64", 8, "F64", 64), "unit": ("()", 0, "Unit", 0),
    # further types the crate mirrors; they travel as the bit pattern of their width (Duration: nanoseconds below 2^64)
    "i8": ("i8", 1, "Nat", 8), "i16": ("i16", 2, "Nat", 16), "i32": ("i32", 4, "Nat", 32), "i128": ("i128", 16, "Nat", 128),
    "isize": ("isize", 8, "Nat", 64), "f32": ("f32", 4, "Nat", 32), "duration": ("std::time::Duration", 16, "Nat", 64),
}
# no total order that is the numeric order of the bit pattern / no plain-number JSON form
SIGNED_OR_FLOAT = ("f64", "i64", "i8", "i16", "i32", "i128", "isize", "f32")
NO_PLAIN_JSON = ("i8", "i16", "i32", "i128", "isize", "f32", "duration")
ALIGN = {"u8": 1, "u16": 2, "u32": 4, "u64": 8, "usize": 8, "u128": 16, "i64": 8, "bool": 1,
         "char": 4, "f64": 8, "unit": 1, "i8": 1, "i16": 2, "i32": 4, "i128": 16, "isize": 8, "f32": 4, "duration": 8}


class Term:
    def __init__(self, kind, args=()):
        self.kind = kind
        self.args = list(args)

    def __str__(self):
        if not self.args:
            return self.kind
        return self.kind + "(" + ",".join(str(a) for a in self.args) + ")"

    __repr__ = __str__

    def sub(self):
        """region-typed children"""
        return [a for a in self.args if a.kind not in PRIMS and a.kind not in ("vec", "opt", "list", "string_t")]

    def walk(self):
        yield self
        for a in self.args:
            yield from a.walk()

    def has(self, kind):
        return any(t.kind == kind for t in self.walk())


def parse(s):
    s = s.strip()
    pos = 0

    def term():
        nonlocal pos
        start = pos
        while pos < len(s) and (s[pos].isalnum() or s[pos] == "_"):
            pos += 1
        name = s[start:pos]
        args = []
        if pos < len(s) and s[pos] == "(":
            pos += 1
            while True:
                args.append(term())
                if s[pos] == ",":
                    pos += 1
                    continue
                if s[pos] == ")":
                    pos += 1
                    break
                raise ValueError(s)
        return Term(name, args)

    t = term()
    if pos != len(s):
        raise ValueError("trailing: " + s)
    return t


# ---------------------------------------------------------------- index type of a region term
# index descriptors: ('nat',) usize; ('pair',) (usize,usize); ('prim',p); ('opt',i); ('res',ok,err); ('tup',[...]); ('unit',)

def index_of(t):
    k = t.kind
    if k == "mirror":
        p = t.args[0].kind
        if p == "usize":
            return ("nat",)
        return ("unit",) if p == "unit" else ("prim", p)
    if k in ("owned", "slice", "huffman", "codec"):
        return ("pair",)
    if k in ("vecregion", "consec", "columns"):
        return ("nat",)
    if k in ("string", "collapse"):
        return index_of(t.args[0])
    if k == "option":
        return ("opt", index_of(t.args[0]))
    if k == "result":
        return ("res", index_of(t.args[0]), index_of(t.args[1]))
    if k == "tuple":
        return ("tup", [index_of(a) for a in t.args])
    raise ValueError(k)


def layout(ix):
    """(size, align, niche) of the Rust index type on x86_64; niche = has invalid bit patterns usable by Option"""
    k = ix[0]
    if k == "nat":
        return (8, 8, False)
    if k == "pair":
        return (16, 8, False)
    if k == "unit":
        return (0, 1, False)
    if k == "prim":
        p = ix[1]
        return (PRIMS[p][1], ALIGN[p], p in ("bool", "char"))
    if k == "opt":
        s, a, n = layout(ix[1])
        if n:
            return (s, a, True)
        sz = s + a
        return (sz, a, True)  # the tag has spare values
    if k == "res":
        s1, a1, n1 = layout(ix[1])
        s2, a2, n2 = layout(ix[2])
        a = max(a1, a2)
        body = max(s1, s2)
        sz = body + a
        sz = (sz + a - 1) // a * a
        return (sz, a, True)
    if k == "tup":
        ls = [layout(x) for x in ix[1]]
        a = max([l[1] for l in ls] + [1])
        sz = sum(l[0] for l in ls)
        sz = (sz + a - 1) // a * a
        return (sz, a, any(l[2] for l in ls))
    raise ValueError(ix)


def rust_index(ix):
    k = ix[0]
    if k == "nat":
        return "usize"
    if k == "pair":
        return "(usize, usize)"
    if k == "unit":
        return "()"
    if k == "prim":
        return PRIMS[ix[1]][0]
    if k == "opt":
        return "Option<%s>" % rust_index(ix[1])
    if k == "res":
        return "Result<%s, %s>" % (rust_index(ix[1]), rust_index(ix[2]))
    if k == "tup":
        return "(" + "".join(rust_index(x) + "," for x in ix[1]) + ")"


def lean_index(ix):
    k = ix[0]
    if k == "nat":
        return "Nat"
    if k == "pair":
        return "(Nat × Nat)"
    if k == "unit":
        return "Unit"
    if k == "prim":
        return PRIMS[ix[1]][2]
    if k == "opt":
        return "(Option %s)" % lean_index(ix[1])
    if k == "res":
        return "(Except %s %s)" % (lean_index(ix[2]), lean_index(ix[1]))
    if k == "tup":
        out = "Unit"
        for x in reversed(ix[1]):
            out = "(%s × %s)" % (lean_index(x), out)
        return out


# ---------------------------------------------------------------- Rust / Lean types

def rust_cont(c, ix):
    if c.kind == "vec":
        return "Vec<%s>" % rust_index(ix)
    assert ix == ("nat",), "opt/list containers hold usize only"
    if c.kind == "opt":
        return "IndexOptimized"
    if c.kind == "list":
        return "IndexList<Vec<u32>, Vec<u64>>"
    raise ValueError(c.kind)


def lean_cont(c, ix):
    if c.kind == "vec":
        return "(Capd (VecIdx %s %d))" % (lean_index(ix), layout(ix)[0])
    if c.kind == "opt":
        return "(Capd IndexOptimized)"
    if c.kind == "list":
        return "(Capd IndexList)"
    raise ValueError(c.kind)


def rust_type(t):
    k = t.kind
    a = t.args
    if k == "mirror":
        return "MirrorRegion<%s>" % PRIMS[a[0].kind][0]
    if k == "owned":
        return "OwnedRegion<%s>" % PRIMS[a[0].kind][0]
    if k == "vecregion":
        return "Vec<%s>" % ("String" if a[0].kind == "string_t" else PRIMS[a[0].kind][0])
    if k == "string":
        return "StringRegion<%s>" % rust_type(a[0])
    if k == "huffman":
        return "HuffmanContainer<%s>" % PRIMS[a[0].kind][0]
    if k == "codec":
        return "CodecRegion<DictionaryCodec>"
    if k == "option":
        return "OptionRegion<%s>" % rust_type(a[0])
    if k == "result":
        return "ResultRegion<%s, %s>" % (rust_type(a[0]), rust_type(a[1]))
    if k == "tuple":
        names = "ABCDEFGHIJKLMNOPQRSTUVWXYZ"[:len(a)]
        return "flatcontainer::impls::tuple::Tuple%sRegion<%s>" % (names, ", ".join(rust_type(x) for x in a))
    if k == "slice":
        return "SliceRegion<%s, %s>" % (rust_type(a[0]), rust_cont(a[1], index_of(a[0])))
    if k == "collapse":
        return "CollapseSequence<%s>" % rust_type(a[0])
    if k == "consec":
        return "ConsecutiveIndexPairs<%s, %s>" % (rust_type(a[0]), rust_cont(a[1], ("nat",)))
    if k == "columns":
        return "ColumnsRegion<%s, %s>" % (rust_type(a[0]), rust_cont(a[1], ("nat",)))
    raise ValueError(k)


def lean_type(t):
    k = t.kind
    a = t.args
    if k == "mirror":
        return "(MirrorRegion %s)" % PRIMS[a[0].kind][2]
    if k == "owned":
        p = a[0].kind
        return "(OwnedRegion %s)" % ("UInt8" if p == "u8" else PRIMS[p][2])
    if k == "vecregion":
        return "(VecRegion %s)" % ("(List UInt8)" if a[0].kind == "string_t" else PRIMS[a[0].kind][2])
    if k == "string":
        return "(StringRegion %s)" % lean_type(a[0])
    if k == "huffman":
        return "HuffU8" if a[0].kind == "u8" else "Huff.Container"
    if k == "codec":
        return "Codec.Region"
    if k == "option":
        return "(OptionRegion %s)" % lean_type(a[0])
    if k == "result":
        return "(ResultRegion %s %s)" % (lean_type(a[0]), lean_type(a[1]))
    if k == "tuple":
        out = "TupleNil"
        for x in reversed(a):
            out = "(TupleCons %s %s)" % (lean_type(x), out)
        return out
    if k == "slice":
        return "(SliceRegion %s %s)" % (lean_type(a[0]), lean_cont(a[1], index_of(a[0])))
    if k == "collapse":
        return "(CollapseSequence %s %s)" % (lean_type(a[0]), lean_index(index_of(a[0])))
    if k == "consec":
        return "(ConsecPairs %s %s)" % (lean_type(a[0]), lean_cont(a[1], ("nat",)))
    if k == "columns":
        return "(ColumnsRegion %s %s %s)" % (lean_type(a[0]), lean_index(index_of(a[0])), lean_cont(a[1], ("nat",)))
    raise ValueError(k)


def rust_owned(t):
    k = t.kind
    a = t.args
    if k == "mirror":
        return PRIMS[a[0].kind][0]
    if k in ("owned", "huffman"):
        return "Vec<%s>" % PRIMS[a[0].kind][0]
    if k == "vecregion":
        return "String" if a[0].kind == "string_t" else PRIMS[a[0].kind][0]
    if k == "string":
        return "String"
    if k == "codec":
        return "Vec<u8>"
    if k == "option":
        return "Option<%s>" % rust_owned(a[0])
    if k == "result":
        return "Result<%s, %s>" % (rust_owned(a[0]), rust_owned(a[1]))
    if k == "tuple":
        return "(" + "".join(rust_owned(x) + "," for x in a) + ")"
    if k in ("slice", "columns"):
        return "Vec<%s>" % rust_owned(a[0])
    if k in ("collapse", "consec"):
        return rust_owned(a[0])
    raise ValueError(k)


# ---------------------------------------------------------------- value shapes
# ('nat', bits) ('f64',) ('unit',) ('bytes', utf8) ('list', s) ('opt', s) ('res', ok, err) ('tup', [s..])

def shape(t):
    k = t.kind
    a = t.args
    if k == "mirror":
        p = a[0].kind
        if p == "unit":
            return ("unit",)
        if p == "f64":
            return ("f64",)
        if p == "char":
            return ("char",)
        return ("nat", PRIMS[p][3])
    if k in ("owned", "huffman"):
        p = a[0].kind
        if p == "u8":
            return ("bytes", False)
        if p == "unit":
            return ("list", ("unit",))
        if p == "f64":
            return ("list", ("f64",))
        return ("list", ("nat", PRIMS[p][3]))
    if k == "vecregion":
        return ("bytes", True) if a[0].kind == "string_t" else ("nat", PRIMS[a[0].kind][3])
    if k == "string":
        return ("bytes", True)
    if k == "codec":
        return ("bytes", False)
    if k == "option":
        return ("opt", shape(a[0]))
    if k == "result":
        return ("res", shape(a[0]), shape(a[1]))
    if k == "tuple":
        return ("tup", [shape(x) for x in a])
    if k in ("slice", "columns"):
        return ("list", shape(a[0]))
    if k in ("collapse", "consec"):
        return shape(a[0])
    raise ValueError(k)


def render(sh, v):
    """canonical wire text of python value v of shape sh"""
    k = sh[0]
    if k in ("nat", "f64", "char"):
        return str(v)
    if k == "unit":
        return "u"
    if k == "bytes":
        return "x" + bytes(v).hex()
    if k == "list":
        return "[" + ",".join(render(sh[1], x) for x in v) + "]"
    if k == "opt":
        return "n" if v is None else "s:" + render(sh[1], v[0])
    if k == "res":
        return ("k:" + render(sh[1], v[1])) if v[0] == "ok" else ("e:" + render(sh[2], v[1]))
    if k == "tup":
        out = "u"
        for s, x in reversed(list(zip(sh[1], v))):
            out = "(" + render(s, x) + "," + out + ")"
        return out
    raise ValueError(sh)


def payload_bytes(sh, v, t):
    """lower bound on payload bytes stored for v (C18), by region term"""
    raise NotImplementedError


class Rng:
    """xorshift64*; every random choice of a run derives from one of these"""

    def __init__(self, seed):
        self.s = (seed * 0x9E3779B97F4A7C15 + 0x1234567) & ((1 << 64) - 1) or 1

    def next(self):
        x = self.s
        x ^= x >> 12
        x ^= (x << 25) & ((1 << 64) - 1)
        x ^= x >> 27
        self.s = x
        return (x * 0x2545F4914F6CDD1D) & ((1 << 64) - 1)

    def below(self, n):
        return self.next() % n if n > 0 else 0

    def chance(self, num, den):
        return self.below(den) < num

    def pick(self, xs):
        return xs[self.below(len(xs))]

    def fork(self):
        return Rng(self.next())


SCALARS = ["a", "b", "z", "0", " ", "ß", "é", "ñ", "€", "ह", "한", "𝄞", "😀", "́", "‍"]
WORDS = ["", "a", "ab", "abc", "ß", "aß", "€", "𝄞", "é", "日本", "x" * 9, "hello world", "\x00"]


def small_size(rng, cap=6):
    r = rng.below(16)
    if r < 4:
        return 0
    if r < 8:
        return 1
    if r < 11:
        return 2
    if r < 13:
        return 3
    return rng.below(cap + 1)


def boundary_nat(rng, bits):
    if bits == 0:
        return 0
    if bits == 1:
        return rng.below(2)
    m = (1 << bits) - 1
    cands = [0, 1, 2, 3, 7, 255, 256, (1 << 31) - 1, 1 << 31, (1 << 32) - 1, 1 << 32, (1 << 32) + 1,
             (1 << 63) - 1, 1 << 63, (1 << 63) + 1, (1 << 64) - 1, 1 << 64, m, m - 1]
    cands = [c for c in cands if c <= m]
    r = rng.below(12)
    if r >= 10:
        # multiples of a small stride: lets index containers holding these values strive and saturate
        return (5 * rng.below(6)) & m
    if r < 5:
        return rng.below(min(m + 1, 5))
    if r < 9:
        return rng.pick(cands)
    return rng.next() & m if bits <= 64 else ((rng.next() << 64) | rng.next()) & m


F64S = [0, 1 << 63, 0x3FF0000000000000, 0xBFF0000000000000, 0x7FF8000000000000, 0x7FF8000000000001,
        0xFFF8000000000000, 0x7FF0000000000000, 0xFFF0000000000000, 1, 0x4000000000000000]
CHARS = [0, 0x41, 0x7F, 0x80, 0xDF, 0x7FF, 0x800, 0xD7FF, 0xE000, 0xFFFF, 0x10000, 0x10FFFF, 0x1F600]


def gen_value(rng, sh, depth=0, pool=None):
    k = sh[0]
    if k == "nat":
        return boundary_nat(rng, sh[1])
    if k == "f64":
        return rng.pick(F64S)
    if k == "char":
        return rng.pick(CHARS)
    if k == "unit":
        return None
    if k == "bytes":
        if sh[1]:
            r = rng.below(10)
            if r < 5:
                return rng.pick(WORDS).encode()
            n = small_size(rng, 8)
            return "".join(rng.pick(SCALARS) for _ in range(n)).encode()
        n = small_size(rng, 8)
        return bytes(rng.pick([0, 1, 2, 97, 98, 127, 128, 200, 254, 255]) for _ in range(n))
    if k == "list":
        n = small_size(rng, 5 if depth < 2 else 2)
        return [gen_value(rng, sh[1], depth + 1) for _ in range(n)]
    if k == "opt":
        return None if rng.chance(1, 3) else (gen_value(rng, sh[1], depth + 1),)
    if k == "res":
        if rng.chance(1, 2):
            return ("ok", gen_value(rng, sh[1], depth + 1))
        return ("err", gen_value(rng, sh[2], depth + 1))
    if k == "tup":
        return [gen_value(rng, s, depth + 1) for s in sh[1]]
    raise ValueError(sh)


def f64_eq(a, b):
    fa = struct.unpack("<d", struct.pack("<Q", a))[0]
    fb = struct.unpack("<d", struct.pack("<Q", b))[0]
    return fa == fb


def rust_eq(sh, a, b):
    """Rust `==` on values of this shape (IEEE on f64)"""
    k = sh[0]
    if k == "f64":
        return f64_eq(a, b)
    if k == "list":
        return len(a) == len(b) and all(rust_eq(sh[1], x, y) for x, y in zip(a, b))
    if k == "opt":
        if a is None or b is None:
            return a is None and b is None
        return rust_eq(sh[1], a[0], b[0])
    if k == "res":
        return a[0] == b[0] and rust_eq(sh[1] if a[0] == "ok" else sh[2], a[1], b[1])
    if k == "tup":
        return all(rust_eq(s, x, y) for s, x, y in zip(sh[1], a, b))
    return a == b


# ---------------------------------------------------------------- capabilities

def caps(t):
    """which optional operations the Rust type offers"""
    coded = t.has("huffman") or t.has("codec")
    return {
        "serde": not coded and not any(t.has(x) for x in NO_PLAIN_JSON),
        "serde_model": not coded,      # the model serialises these too; the harness cannot compare their JSON
        "heap": not t.has("huffman"),
        "clone": not t.has("codec"),
        "reserve_items": not (t.has("columns") or t.has("collapse") or coded),
        "reserve_regions": not t.has("huffman"),
        "coded": coded,
    }


def load(path):
    out = []
    for line in open(path):
        line = line.split("#")[0].strip()
        if line:
            out.append(parse(line))
    return out
